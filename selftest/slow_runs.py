import sys, time, json, os
sys.path.insert(0,'/verif'); sys.path.insert(0,'/repo')
from dsim import core, runner
from dsim.isolate import call_in_fork
import props.c15 as c15
runner._prepare_parent(c15)
import concurrent.futures as cf, multiprocessing
def one(i):
    seed=core.run_seed(0,'C15',i)
    t=time.time()
    d=call_in_fork(runner._run_seed_child, ('C15', seed, 'quick'), timeout=600)
    return i, time.time()-t
if __name__=="__main__":
    lo,hi=int(sys.argv[1]),int(sys.argv[2])
    with cf.ProcessPoolExecutor(max_workers=8, mp_context=multiprocessing.get_context("fork")) as ex:
        res=list(ex.map(one, range(lo,hi)))
    res.sort(key=lambda x:-x[1])
    tot=sum(t for _,t in res)
    print("total cpu-ish", round(tot,1), "top:", [(i,round(t,1)) for i,t in res[:12]])
    for i,t in res[:6]:
        plan=c15.gen_plan(core.run_seed(0,'C15',i),'quick')
        from collections import Counter
        print(i, round(t,1), len(plan['ops']), Counter((o.get('algo') or o['op']) for o in plan['ops']).most_common(4), [ (c['form'],len(c['values']),max(c['values'])) for c in plan['pool']][:6])
