import json, subprocess, sys, re
V='/verif'
s=open(V+'/DESIGN.md').read()
tab=subprocess.run(['/venv/bin/python', V+'/selftest/report.py', V+'/selftest/sensitivity_results.json'],capture_output=True,text=True).stdout
tab='\n'.join(l for l in tab.splitlines() if not l.startswith('WARNING'))
if '@@SENSITIVITY_TABLE@@' in s:
    s=s.replace('@@SENSITIVITY_TABLE@@', '<!-- sensitivity-table-begin -->\n'+tab.strip()+'\n<!-- sensitivity-table-end -->')
else:
    s=re.sub(r'<!-- sensitivity-table-begin -->.*?<!-- sensitivity-table-end -->', lambda m: '<!-- sensitivity-table-begin -->\n'+tab.strip()+'\n<!-- sensitivity-table-end -->', s, flags=re.S)
def fa(path):
    d=json.load(open(path)); return d
try:
    u=fa(V+'/selftest/false_alarm_unchanged.json')['unchanged_tree']
    n=sum(len(v) for v in u.values()); bad=sum(1 for v in u.values() for x in v.values() if x['exit']!=0)
    seeds=sorted({int(k) for v in u.values() for k in v})
    txt=f"{n} runs (4 checks x VERIF_SEED {seeds[0]}..{seeds[-1]}), {n-bad} exit 0, {bad} otherwise (`selftest/false_alarm_unchanged.json`)"
    s=s.replace('@@FA_UNCHANGED@@', txt)
except Exception as e: print('unchanged:',e)
try:
    u=fa(V+'/selftest/false_alarm_neutral.json')['neutral']
    n=0; bad=[]
    for name,v in u.items():
        for k,x in v.items():
            if isinstance(x,dict) and 'exit' in x:
                n+=1
                if x['exit']!=0: bad.append(name)
            else:
                for kk,xx in x.items():
                    n+=1
                    if xx['exit']!=0: bad.append(name+'/'+k)
    txt=f"final run: {len(u)} patches, {n} check runs, {n-len(bad)} exit 0" + (f", NOT zero: {bad}" if bad else "") + " (`selftest/false_alarm_neutral.json`; the all-four-checks runs of the two sub-agent rounds are in `selftest/neutral_round2_all_props.log` and were 92/92 and 32/32 exit 0)"
    s=s.replace('@@FA_NEUTRAL@@', txt)
except Exception as e: print('neutral:',e)
open(V+'/DESIGN.md','w').write(s)
print('filled')
