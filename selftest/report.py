#!/venv/bin/python
"""
Markdown summary of selftest/sensitivity_results.json (which check caught which change, by which clause)
for DESIGN.md section 11.   usage: report.py [results.json]
"""
import glob
import json
import os
import sys

HERE = os.path.dirname(os.path.abspath(__file__))
VERIF = os.path.dirname(HERE)


def main():
    path = sys.argv[1] if len(sys.argv) > 1 else os.path.join(HERE, "sensitivity_results.json")
    res = json.load(open(path))
    needs = {}
    for d in glob.glob(os.path.join(VERIF, "seeded", "*")):
        try:
            m = json.load(open(os.path.join(d, "meta.json")))
            needs["seeded/" + os.path.basename(d)] = m.get("needs_to_manifest", "")
        except Exception:
            pass
    rows = {"mutants": [], "seeded": []}
    for name in sorted(res):
        r = res[name]
        if "runs" not in r:
            continue
        grp = "seeded" if name.startswith("seeded/") else "mutants"
        clauses = sorted({c for run in r["runs"] for c in run["clauses"]})
        seeds = len(r["runs"])
        hit = sum(1 for run in r["runs"] if run["exit"] == 1)
        rep_ok = all(x["mutant_rc"] == 1 and x["clean_rc"] == 0 for run in r["runs"] for x in run["replays"])
        sizes = [x["plan_size"] for run in r["runs"] for x in run["replays"]]
        rows[grp].append((name.replace("seeded/", ""), r["property"], "yes" if r.get("detected") else "**NO**", f"{hit}/{seeds}",
                          ", ".join(clauses) or "-", "yes" if (rep_ok and sizes) else ("-" if not sizes else "**NO**"),
                          min(sizes) if sizes else "-", needs.get(name, "")))
    for grp in ("seeded", "mutants"):
        print(f"\n### {grp} ({len(rows[grp])}; detected {sum(1 for x in rows[grp] if x[2] == 'yes')})\n")
        if grp == "seeded":
            print("| change | check | caught | seeds hit | violated clauses | replay: fails on change, passes on clean tree | smallest replay plan (bytes of JSON) | needs, to manifest |")
            print("|---|---|---|---|---|---|---|---|")
            for x in rows[grp]:
                print("| " + " | ".join(str(v) for v in x) + " |")
        else:
            print("| change | check | caught | seeds hit | violated clauses | replay ok | smallest plan |")
            print("|---|---|---|---|---|---|---|")
            for x in rows[grp]:
                print("| " + " | ".join(str(v) for v in x[:7]) + " |")


if __name__ == "__main__":
    main()
