#!/venv/bin/python
"""
Sensitivity self-test: apply each mutant patch to a scratch worktree of /repo (outside /repo and
/verif), optionally run the repository's stable tests there, run the quick check against it with
VERIF_REPO, expect exit 1 + a replay file that reproduces on the mutant and not on the clean tree.

usage: sensitivity.py [--tests] [--seeds 0,1,2] [--tier quick] [--runs N] [pattern ...]
Patches are taken from selftest/mutants/*.patch and seeded/*/patch.diff; the property is the
prefix of the patch name (C11-..., C16-...) or meta.json's "property".
"""
import argparse
import glob
import json
import os
import re
import shutil
import subprocess
import sys
import tempfile
import time

HERE = os.path.dirname(os.path.abspath(__file__))
VERIF = os.path.dirname(HERE)

STABLE = None


def stable_tests():
    global STABLE
    if STABLE is None:
        STABLE = json.load(open("/root/.vp/BASELINE.json"))["stable_pass"]
    return STABLE


def sh(cmd, **kw):
    return subprocess.run(cmd, capture_output=True, text=True, **kw)


def collect(patterns):
    out = []
    for p in sorted(glob.glob(os.path.join(HERE, "mutants", "*.patch"))):
        name = os.path.basename(p)[:-6]
        out.append((name, name.split("-")[0], p))
    for d in sorted(glob.glob(os.path.join(VERIF, "seeded", "*"))):
        p = os.path.join(d, "patch.diff")
        if os.path.exists(p):
            meta = json.load(open(os.path.join(d, "meta.json"))) if os.path.exists(os.path.join(d, "meta.json")) else {}
            out.append(("seeded/" + os.path.basename(d), meta.get("property", os.path.basename(d).split("-")[0]), p))
    if patterns:
        out = [x for x in out if any(re.search(pt, x[0]) for pt in patterns)]
    return out


def run_suite(wt):
    """Run the repo's suite in the worktree; -> (n stable passed, list of stable tests that failed)"""
    junit = os.path.join(wt, "junit.xml")
    sh(["/venv/bin/python", "-m", "pytest", "-q", "-p", "no:cacheprovider", "--timeout=900",
        "--continue-on-collection-errors", "--junitxml=" + junit], cwd=wt, timeout=1800,
       env=dict(os.environ, PYTHONPATH=wt, PYTHONDONTWRITEBYTECODE="1"))
    import xml.etree.ElementTree as ET
    ok = set()
    try:
        for tc in ET.parse(junit).getroot().iter("testcase"):
            tid = tc.get("classname") + "::" + tc.get("name")
            if not any(ch.tag in ("failure", "error", "skipped") for ch in tc):
                ok.add(tid)
    except Exception as e:
        return 0, ["junit unreadable: %r" % e]
    failed = [t for t in stable_tests() if t not in ok]
    return len(stable_tests()) - len(failed), failed


def main():
    ap = argparse.ArgumentParser()
    ap.add_argument("patterns", nargs="*")
    ap.add_argument("--tests", action="store_true", help="also run the repository's suite on the mutant")
    ap.add_argument("--seeds", default="0")
    ap.add_argument("--tier", default="quick")
    ap.add_argument("--runs", default=None)
    ap.add_argument("--out", default=os.path.join(HERE, "sensitivity_results.json"))
    a = ap.parse_args()
    seeds = [int(s) for s in a.seeds.split(",")]
    results = {}
    if os.path.exists(a.out):
        try:
            results = json.load(open(a.out))
        except Exception:
            results = {}
    for name, prop, patch in collect(a.patterns):
        wt = tempfile.mkdtemp(prefix="prtpy-mut-", dir="/tmp")
        os.rmdir(wt)
        sh(["git", "-C", "/repo", "worktree", "add", "-q", "--detach", wt, "HEAD"])
        rec = {"property": prop, "patch": os.path.relpath(patch, VERIF)}
        try:
            ap_ = sh(["git", "-C", wt, "apply", patch])
            if ap_.returncode != 0:
                rec["error"] = "patch does not apply: " + ap_.stderr[-300:]
                results[name] = rec
                print(name, "PATCH-DOES-NOT-APPLY")
                continue
            if a.tests:
                n, failed = run_suite(wt)
                rec["stable_tests_passed"] = n
                rec["stable_tests_failed"] = failed
            rec["runs"] = []
            for s in seeds:
                t = time.time()
                cmd = [os.path.join(VERIF, "check"), prop, "--tier", a.tier, "--seed", str(s)]
                if a.runs:
                    cmd += ["--runs", a.runs]
                p = sh(cmd, env=dict(os.environ, VERIF_REPO=wt), cwd=VERIF, timeout=7200)
                vio = re.findall(r"^VIOLATION property=(\S+) replay=(\S+)", p.stdout, re.M)
                clauses = re.findall(r"^  clause=(\S+)", p.stdout, re.M)
                r = {"seed": s, "exit": p.returncode, "violations": len(vio), "clauses": clauses, "wall_s": round(time.time() - t, 1)}
                if p.returncode == 2:
                    r["harness"] = p.stdout[-600:]
                rep_ok = []
                for (_, path) in vio:
                    on_mut = sh([os.path.join(VERIF, "check"), prop, "--replay", path], env=dict(os.environ, VERIF_REPO=wt), cwd=VERIF, timeout=1200)
                    on_clean = sh([os.path.join(VERIF, "check"), prop, "--replay", path], env=dict(os.environ, VERIF_REPO="/repo"), cwd=VERIF, timeout=1200)
                    rep_ok.append({"replay": os.path.basename(path), "mutant_rc": on_mut.returncode, "clean_rc": on_clean.returncode,
                                   "plan_size": len(json.dumps(json.load(open(path))["plan"]))})
                    try:
                        os.remove(path)
                    except OSError:
                        pass
                r["replays"] = rep_ok
                rec["runs"].append(r)
            det = all(r["exit"] == 1 and r["replays"] and all(x["mutant_rc"] == 1 and x["clean_rc"] == 0 for x in r["replays"]) for r in rec["runs"])
            rec["detected"] = det
            print(f"{name:45s} {'DETECTED' if det else 'MISSED  '} "
                  + " ".join(f"[seed {r['seed']}: exit {r['exit']} {','.join(r['clauses'])} {r['wall_s']}s]" for r in rec["runs"])
                  + (f" tests: {rec.get('stable_tests_passed')}/42" if a.tests else ""))
        finally:
            sh(["git", "-C", "/repo", "worktree", "remove", "--force", wt])
            shutil.rmtree(wt, ignore_errors=True)
        results[name] = rec
        json.dump(results, open(a.out, "w"), indent=1, sort_keys=True)
    sh(["git", "-C", "/repo", "worktree", "prune"])


if __name__ == "__main__":
    main()
