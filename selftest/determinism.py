#!/venv/bin/python
"""
Determinism self-test (DESIGN A.5): for each property, N run indices are executed in four
process layouts and all digests must be equal:
   A  default (PYTHONHASHSEED=0, 16 workers)
   B  again, same layout (other worker assignment in practice)
   C  VERIF_JOBS=3
   D  PYTHONHASHSEED=12345 in a fresh interpreter, 5 workers
usage: determinism.py [--n 200] [--tier quick] [--seed 0] [C11 C15 C16 C17]
Writes selftest/determinism_results.json ; exit 1 on any mismatch.
"""
import argparse
import json
import os
import subprocess
import sys
import time

HERE = os.path.dirname(os.path.abspath(__file__))
VERIF = os.path.dirname(HERE)


def digests(prop, tier, seed, idx, jobs, hashseed):
    env = dict(os.environ, PYTHONHASHSEED=str(hashseed), PYTHONDONTWRITEBYTECODE="1", OPENBLAS_NUM_THREADS="1", VERIF_NO_REEXEC="1")
    cmd = ["/venv/bin/python", os.path.join(VERIF, "dsim", "main.py"), prop, "--tier", tier, "--seed", str(seed),
           "--jobs", str(jobs), "--digests", ",".join(map(str, idx))]
    p = subprocess.run(cmd, env=env, capture_output=True, text=True, timeout=7200)
    out = {}
    for ln in p.stdout.splitlines():
        if ln.startswith("DIGEST "):
            _, i, d = ln.split()
            out[int(i)] = d
    return out, p.returncode


def main():
    ap = argparse.ArgumentParser()
    ap.add_argument("props", nargs="*", default=["C11", "C15", "C16", "C17"])
    ap.add_argument("--n", type=int, default=200)
    ap.add_argument("--tier", default="quick")
    ap.add_argument("--seed", type=int, default=0)
    a = ap.parse_args()
    results = {}
    bad = False
    for prop in a.props or ["C11", "C15", "C16", "C17"]:
        idx = list(range(a.n))
        t = time.time()
        layouts = {"A_jobs16_hash0": (16, 0), "B_jobs16_hash0_again": (16, 0), "C_jobs3_hash0": (3, 0), "D_jobs5_hash12345": (5, 12345)}
        got = {}
        for name, (jobs, hs) in layouts.items():
            got[name], rc = digests(prop, a.tier, a.seed, idx, jobs, hs)
        base = got["A_jobs16_hash0"]
        mism = {name: [i for i in idx if g.get(i) != base.get(i)] for name, g in got.items() if name != "A_jobs16_hash0"}
        missing = [i for i in idx if i not in base]
        ok = not any(mism.values()) and not missing
        bad = bad or not ok
        results[prop] = {"tier": a.tier, "seed": a.seed, "run_indices": a.n, "layouts": list(layouts), "mismatches": mism, "missing": missing,
                         "distinct_digests": len(set(base.values())), "wall_s": round(time.time() - t, 1), "ok": ok}
        print(prop, "OK" if ok else "MISMATCH", json.dumps(results[prop])[:400])
    path = os.path.join(HERE, "determinism_results.json")
    old = {}
    if os.path.exists(path):
        try:
            old = json.load(open(path))
        except Exception:
            old = {}
    old.update(results)
    json.dump(old, open(path, "w"), indent=1, sort_keys=True)
    sys.exit(1 if bad else 0)


if __name__ == "__main__":
    main()
