#!/venv/bin/python
"""
Confirm a seeded change delivered by a sub-agent and file it under /verif/seeded/<id>/.

usage: verify_seeded.py <property> <id> <candidate dir with patch.diff, demo.py, README.md>
Steps (all in a scratch worktree under /tmp, removed afterwards):
  1. patch applies to /repo HEAD with `git apply`; package imports
  2. demo.py exits 0 on the clean tree and non-zero with the patch
  3. the repository's suite: all 42 stable tests of BASELINE.json still pass with the patch
Writes seeded/<id>/{patch.diff,demo.py,README.md,meta.json}; exit 1 if any step fails (nothing is filed).
"""
import json
import os
import shutil
import subprocess
import sys
import tempfile
import xml.etree.ElementTree as ET

HERE = os.path.dirname(os.path.abspath(__file__))
VERIF = os.path.dirname(HERE)


def sh(cmd, **kw):
    return subprocess.run(cmd, capture_output=True, text=True, **kw)


def main():
    prop, sid, cand = sys.argv[1], sys.argv[2], os.path.abspath(sys.argv[3])
    needs = sys.argv[4] if len(sys.argv) > 4 else ""
    patch = os.path.join(cand, "patch.diff")
    demo = os.path.join(cand, "demo.py")
    wt = tempfile.mkdtemp(prefix="prtpy-seedchk-", dir="/tmp")
    os.rmdir(wt)
    sh(["git", "-C", "/repo", "worktree", "add", "-q", "--detach", wt, "HEAD"])
    ran = []
    ok = True
    try:
        env = dict(os.environ, PYTHONPATH=wt, PYTHONDONTWRITEBYTECODE="1")
        d0 = sh(["/venv/bin/python", demo], cwd=wt, env=env, timeout=900)
        ran.append({"cmd": "demo.py on clean worktree of /repo HEAD", "exit": d0.returncode})
        a = sh(["git", "-C", wt, "apply", patch])
        ran.append({"cmd": "git apply patch.diff", "exit": a.returncode})
        if a.returncode != 0:
            print("patch does not apply:", a.stderr[-300:])
            ok = False
        imp = sh(["/venv/bin/python", "-c", "import prtpy,sys; sys.exit(0 if prtpy.__file__.startswith(%r) else 3)" % wt], cwd=wt, env=env)
        ran.append({"cmd": "import prtpy from patched worktree", "exit": imp.returncode})
        d1 = sh(["/venv/bin/python", demo], cwd=wt, env=env, timeout=900)
        ran.append({"cmd": "demo.py with patch", "exit": d1.returncode, "tail": (d1.stdout + d1.stderr)[-300:]})
        if d0.returncode != 0 or d1.returncode == 0 or imp.returncode != 0:
            ok = False
        junit = os.path.join(wt, "junit.xml")
        sh(["/venv/bin/python", "-m", "pytest", "-q", "-p", "no:cacheprovider", "--timeout=900", "--continue-on-collection-errors",
            "--junitxml=" + junit], cwd=wt, env=env, timeout=3600)
        passed = set()
        for tc in ET.parse(junit).getroot().iter("testcase"):
            if not any(ch.tag in ("failure", "error", "skipped") for ch in tc):
                passed.add(tc.get("classname") + "::" + tc.get("name"))
        stable = json.load(open("/root/.vp/BASELINE.json"))["stable_pass"]
        failed = [t for t in stable if t not in passed]
        if failed:
            # the repository's suite has randomised tests that fail now and then on the unchanged tree as well
            # (TestRNP::test_on_random_inputs): a failure counts only if it repeats
            sh(["/venv/bin/python", "-m", "pytest", "-q", "-p", "no:cacheprovider", "--timeout=900", "--continue-on-collection-errors",
                "--junitxml=" + junit], cwd=wt, env=env, timeout=3600)
            for tc in ET.parse(junit).getroot().iter("testcase"):
                if not any(ch.tag in ("failure", "error", "skipped") for ch in tc):
                    passed.add(tc.get("classname") + "::" + tc.get("name"))
            failed = [t for t in stable if t not in passed]
        ran.append({"cmd": "pytest (repository suite) with patch", "stable_passed": len(stable) - len(failed), "stable_failed": failed})
        if failed:
            ok = False
    finally:
        sh(["git", "-C", "/repo", "worktree", "remove", "--force", wt])
        shutil.rmtree(wt, ignore_errors=True)
        sh(["git", "-C", "/repo", "worktree", "prune"])
    print(sid, "CONFIRMED" if ok else "REJECTED", json.dumps(ran)[:1500])
    if not ok:
        sys.exit(1)
    out = os.path.join(VERIF, "seeded", sid)
    os.makedirs(out, exist_ok=True)
    for f in ("patch.diff", "demo.py", "README.md"):
        if os.path.exists(os.path.join(cand, f)):
            shutil.copy(os.path.join(cand, f), os.path.join(out, f))
    meta = {"id": sid, "property": prop, "author": "independent sub-agent given only the property text and a scratch worktree",
            "needs_to_manifest": needs, "confirmed_by_me": ran, "repo_head": sh(["git", "-C", "/repo", "rev-parse", "HEAD"]).stdout.strip()}
    json.dump(meta, open(os.path.join(out, "meta.json"), "w"), indent=1)


if __name__ == "__main__":
    main()
