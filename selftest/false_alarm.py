#!/venv/bin/python
"""
No-false-alarm self-test (DESIGN A.5):
 1. every check, tier quick (or --tier), on the unchanged tree under many VERIF_SEEDs must exit 0;
 2. semantically neutral refactors (selftest/neutral/*.patch), applied to a scratch worktree, must exit 0 too.
usage: false_alarm.py [--seeds 1-20] [--tier quick] [--neutral] [--props C11,C15,C16,C17] [--runs N]
Prints one line per (property, seed); exit 1 if any run did not exit 0. Evidence files are NOT touched
(the checks run from a private copy of /verif when --copy is given; default: in place).
"""
import argparse
import glob
import json
import os
import re
import shutil
import subprocess
import sys
import tempfile
import time

HERE = os.path.dirname(os.path.abspath(__file__))
VERIF = os.path.dirname(HERE)


def run(prop, tier, seed, repo=None, runs=None):
    env = dict(os.environ, VERIF_SEED=str(seed))
    if repo:
        env["VERIF_REPO"] = repo
    cmd = [os.path.join(VERIF, "check"), prop, "--tier", tier]
    if runs:
        cmd += ["--runs", str(runs)]
    t = time.time()
    p = subprocess.run(cmd, env=env, cwd=VERIF, capture_output=True, text=True, timeout=4 * 3600)
    return p.returncode, time.time() - t, p.stdout


def main():
    ap = argparse.ArgumentParser()
    ap.add_argument("--seeds", default="1-20")
    ap.add_argument("--tier", default="quick")
    ap.add_argument("--props", default="C11,C15,C16,C17")
    ap.add_argument("--neutral", action="store_true")
    ap.add_argument("--runs", default=None)
    ap.add_argument("--all-props", action="store_true", help="with --neutral: run every property of --props on every patch, not only the one it is named after")
    ap.add_argument("--out", default=None, help="write the RESULT json here as well")
    a = ap.parse_args()
    lo, hi = (a.seeds.split("-") + [a.seeds])[:2]
    seeds = list(range(int(lo), int(hi) + 1))
    bad = 0
    out = {"tier": a.tier, "unchanged_tree": {}, "neutral": {}}
    if not a.neutral:
        for prop in a.props.split(","):
            for s in seeds:
                rc, wall, stdout = run(prop, a.tier, s, runs=a.runs)
                last = stdout.strip().splitlines()[-1] if stdout.strip() else ""
                print(f"{prop} seed={s} exit={rc} wall={wall:.1f}s {last[:160]}", flush=True)
                out["unchanged_tree"].setdefault(prop, {})[str(s)] = {"exit": rc, "wall_s": round(wall, 1)}
                if rc != 0:
                    bad += 1
                    print(stdout[-3000:])
    else:
        for patch in sorted(glob.glob(os.path.join(HERE, "neutral", "*.patch"))):
            name = os.path.basename(patch)[:-6]
            prop = name.split("-")[0]
            wt = tempfile.mkdtemp(prefix="prtpy-neutral-", dir="/tmp")
            os.rmdir(wt)
            subprocess.run(["git", "-C", "/repo", "worktree", "add", "-q", "--detach", wt, "HEAD"], check=True)
            try:
                ap_ = subprocess.run(["git", "-C", wt, "apply", patch], capture_output=True, text=True)
                if ap_.returncode != 0:
                    print(name, "PATCH-DOES-NOT-APPLY", ap_.stderr[-200:])
                    bad += 1
                    continue
                for pr in (a.props.split(",") if a.all_props else [prop]):
                    for s in seeds:
                        rc, wall, stdout = run(pr, a.tier, s, repo=wt, runs=a.runs)
                        print(f"neutral {name} check={pr} seed={s} exit={rc} wall={wall:.1f}s", flush=True)
                        out["neutral"].setdefault(name, {}).setdefault(pr, {})[str(s)] = {"exit": rc, "wall_s": round(wall, 1)}
                        if rc != 0:
                            bad += 1
                            print(stdout[-3000:])
            finally:
                subprocess.run(["git", "-C", "/repo", "worktree", "remove", "--force", wt])
                shutil.rmtree(wt, ignore_errors=True)
    print("RESULT", json.dumps(out))
    if a.out:
        json.dump(out, open(a.out, "w"), indent=1, sort_keys=True)
    sys.exit(1 if bad else 0)


if __name__ == "__main__":
    main()
