#!/venv/bin/python
"""mkmutant.py <name> <default file> <<< "OLD\n=====\nNEW[\n#####\n[FILE: other/file.py\n]OLD2\n=====\nNEW2 ...]"
   -> selftest/mutants/<name>.patch  (made in a scratch worktree of /repo HEAD, outside /repo and /verif)"""
import os, subprocess, sys, tempfile
name, rel0 = sys.argv[1], sys.argv[2]
blocks = sys.stdin.read().split("\n#####\n")
wt = tempfile.mkdtemp(prefix="mkmut-", dir="/tmp")
os.rmdir(wt)
subprocess.check_call(["git", "-C", "/repo", "worktree", "add", "-q", "--detach", wt, "HEAD"])
try:
    for blk in blocks:
        rel = rel0
        if blk.startswith("FILE: "):
            first, blk = blk.split("\n", 1)
            rel = first[6:].strip()
        old, new = blk.split("\n=====\n")
        old = old.rstrip("\n")
        new = new.rstrip("\n")
        p = os.path.join(wt, rel)
        s = open(p).read()
        if s.count(old) != 1:
            sys.exit(f"OLD occurs {s.count(old)} times in {rel}:\n{old[:200]}")
        open(p, "w").write(s.replace(old, new))
    d = subprocess.run(["git", "-C", wt, "diff"], capture_output=True, text=True).stdout
    out = os.path.join(os.path.dirname(os.path.abspath(__file__)), "mutants", name + ".patch")
    open(out, "w").write(d)
    chk = subprocess.run(["/venv/bin/python", "-c", "import prtpy"], cwd=wt, capture_output=True, text=True, env=dict(os.environ, PYTHONPATH=wt))
    print("wrote", out, len(d.splitlines()), "lines; import", "ok" if chk.returncode == 0 else "FAILS: " + chk.stderr[-300:])
finally:
    subprocess.call(["git", "-C", "/repo", "worktree", "remove", "--force", wt])
