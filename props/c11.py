"""
C11 - anytime algorithms are safe to interrupt and only ever improve.

System under simulation: complete_greedy.anytime, cbldm.cbldm (real code, real binners,
real objectives) under a simulated clock; complete_karmarkar_karp_sy.generator under a
simulated consumer. One run = one generated instance + the sweep of all its interruption
points (or a ladder of limits on a non-uniform clock schedule).
"""
import sys

from dsim import core, refmodels
from dsim.core import Result, Trace, canon, plain, StepBudgetExceeded
from dsim.seams import SimClock, ClockSeam, LogSeam

ID = "C11"
LEVEL = "fault_enumeration"
RUN_WALL_WATCHDOG_S = 300.0

TIERS = {
    # r_max: cap on clock readings of the un-interrupted run (deterministic step budget)
    # sweep_max: up to this many readings every cut is executed; above, a structured sample
    "quick":    {"runs": 16000, "chunk": 10, "wall_cap_s": 75, "r_max": 1500, "sweep_max": 300, "size": 0, "b_max": 60000,
                 "det_sample_min": 8, "det_sample_frac": 0.005, "max_reports": 3, "shrink_candidates": 250},
    "thorough": {"runs": 120000, "chunk": 8, "wall_cap_s": 1500, "r_max": 5000, "sweep_max": 900, "size": 1, "b_max": 400000,
                 "det_sample_min": 32, "det_sample_frac": 0.003, "max_reports": 4, "shrink_candidates": 600,
                 "fresh_interpreter_check": True, "fresh_sample": 32},
}

RULE = ("One run = one seeded instance (algorithm in {complete greedy, CBLDM, CKK generator}, items, numbins, objective, "
        "one of the 16 pruning-switch combinations, bins-manager kind, item presentation) executed once un-interrupted under a "
        "counting clock (R readings) and then once per interruption point: every cut c in 1..R+1 with time_limit=c-0.5 ticks "
        "when R <= sweep_max (else first/last 48, bisected improvement points and a seeded sample), or a ladder of limits on a "
        "jittered/jumping/stalled/late-start/boundary/big-origin clock schedule; for the generator every abandon-after-j-yields point. "
        "evaluations = executions of the real algorithm judged by the oracle. A case is (instance, cut); it is non-trivial when the "
        "limit really fired before the search finished (fewer clock readings than the un-interrupted run) or, for the generator, when "
        "the consumer abandoned it after a yield; distinct = distinct (instance hash, cut) pairs, instances de-duplicated across runs.")

ASSUMPTIONS = [
    "the clock is read only through the `time` seam (module attribute / time.* functions called from prtpy frames); a finite-limit run with zero simulated readings is reported as HARNESS-ERROR, not as a pass",
    "perf_counter is monotone: stalls and forward jumps are injected, backward steps are not",
    "item values are non-negative integers <= 10^6 so every sum is exact in float64",
    "sampling over instances; exhaustive only over the interruption points of each generated instance with R <= sweep_max",
    "reference models (exhaustive optimum, LPT, 2-way optimum under a cardinality bound, partition validator) in dsim/refmodels.py are trusted; they are cross-checked against naive enumeration at start-up",
]

COMPONENTS = {
    "real": ["prtpy.partitioning.complete_greedy.anytime", "prtpy.partitioning.cbldm.cbldm / CBLDM_algo",
             "prtpy.partitioning.complete_karmarkar_karp_sy.generator", "prtpy.partitioning.karmarkar_karp_sy.BinsSortedByMaxDiff",
             "prtpy.binners (both managers)", "prtpy.objectives", "numpy"],
    "simulated": ["clock (time.perf_counter and friends as seen from prtpy modules, timeit.default_timer) -> dsim.seams.SimClock",
                  "generator consumer (when to resume, when to abandon) -> harness", "logging level of the prtpy.* loggers (LogSeam)"],
    "stubbed": [],
}

_seam = ClockSeam()
_log = LogSeam()


def _tier(tier):
    return TIERS[tier]


# ---------------------------------------------------------------- plan generation

def _gen_items(r, family, k, nmax):
    if family == "narrow":
        a = r.choice([5, 10, 20, 50, 100, 300, 1000, 10000])
        n = r.randint(min(5, nmax), nmax)
        return [r.randint(a, 2 * a) for _ in range(n)]
    if family == "lptworst":
        kk = max(2, min(k, 4))
        items = []
        for v in range(2 * kk - 1, kk, -1):
            items += [v, v]
        items += [kk, kk, kk]
        r.shuffle(items)
        return items[:max(nmax, 3)] if len(items) > nmax else items
    if family == "equal":
        n = r.randint(1, nmax)
        v = r.choice([0, 1, 3, 7, 100])
        return [v] * n
    if family == "zeros":
        n = r.randint(2, nmax)
        items = [r.randint(1, 30) for _ in range(n)]
        for _ in range(r.randint(1, min(3, n))):
            items[r.randrange(n)] = 0
        return items
    if family == "wide":
        n = r.randint(min(4, nmax), nmax)
        return [r.randint(1, 10 ** 6) for _ in range(n)]
    if family == "small":
        n = r.randint(min(4, nmax), nmax)
        return [r.randint(1, 12) for _ in range(n)]
    if family == "tiny":
        n = r.randint(1, min(3, nmax))
        return [r.randint(0, 9) for _ in range(n)]
    if family == "perfect":  # a perfect partition exists (every bin can reach total/k): exercises the global-lower-bound early exit
        kk = max(1, min(k, 5))
        S = r.choice([6, 10, 12, 20, 30, 60, 100])
        items = []
        for _ in range(kk):
            left = S
            while left > 0 and len(items) < nmax:
                x = r.randint(1, left)
                items.append(x)
                left -= x
            if left > 0:
                items.append(left)
        r.shuffle(items)
        return items[:max(nmax, 1)] if r.random() < 0.8 else items[:max(nmax, 1)] + [r.randint(1, 3)]
    if family == "bigclose":  # large values that differ by a few units: sums far above 10^5 whose differences are tiny
        #                       relative to their size (a comparison with a float tolerance takes them for equal)
        n = r.randint(min(3, nmax), nmax)
        B = r.choice([10 ** 5, 3 * 10 ** 5, 10 ** 6, 2 ** 31, 10 ** 9 + 7, 2 ** 40])
        items = [B + r.randint(-3, 3) for _ in range(max(2, n // 2))] + [r.randint(0, 4) for _ in range(n - max(2, n // 2))]
        r.shuffle(items)
        return items
    if family == "pow":      # powers of two and near-powers: unique optimum, LPT often wrong
        n = r.randint(min(4, nmax), nmax)
        return [max(0, 2 ** r.randint(0, 10) + r.choice([-1, 0, 0, 1])) for _ in range(n)]
    raise ValueError(family)


def _nmax_cg(k, sw, objective, size):
    bound_pruning = sw["lb"] or (sw["flb"] and objective in ("max", "min"))
    if bound_pruning:
        n = {1: 12, 2: 14, 3: 12, 4: 10, 5: 9}[k]
    elif sw["seen"]:
        n = {1: 12, 2: 11, 3: 8, 4: 7, 5: 6}[k]
    else:
        n = {1: 12, 2: 10, 3: 7, 4: 5, 5: 5}[k]
    return n + (1 if size else 0)


def gen_plan(seed, tier):
    cfg = _tier(tier)
    r = core.rng(seed, "c11-swarm")
    algo = r.choices(["cg", "cbldm", "ckkgen"], weights=[62, 24, 14])[0]
    family = r.choice(["narrow", "narrow", "narrow", "lptworst", "equal", "zeros", "zeros", "wide", "small", "small", "tiny", "pow", "perfect", "perfect", "bigclose"])
    plan = {"prop": "C11", "algo": algo, "family": family}
    if algo == "cg":
        k = r.choices([1, 2, 3, 4, 5], weights=[10, 34, 34, 14, 8])[0]
        sw = {"lb": r.random() < 0.65, "flb": r.random() < 0.65, "h3": r.random() < 0.35, "seen": r.random() < 0.65}
        objective = r.choice(["diff", "max", "min"])
        nmax = _nmax_cg(k, sw, objective, cfg["size"])
        items = _gen_items(r, family, k, nmax)
        if family == "tiny" and r.random() < 0.5:
            k = r.randint(len(items) + 1, len(items) + 3)      # numbins > number of items
            k = min(k, 5)
        plan.update({"numbins": k, "objective": objective, "switches": sw})
    elif algo == "cbldm":
        k = 2
        nmax = 11 + cfg["size"]
        items = _gen_items(r, family, k, nmax)
        bound = r.choice([None, None, 1, 1, 2, 3, 5])
        plan.update({"numbins": 2, "bound": bound})
    else:
        k = r.choices([1, 2, 3, 4, 5], weights=[4, 40, 34, 14, 8])[0]
        nmax = {1: 8, 2: 12, 3: 10, 4: 9, 5: 8}[k] + cfg["size"]
        if family in ("narrow", "small") and r.random() < 0.5:
            family = plan["family"] = "wide"        # the generator needs wide values to yield more than once
        items = _gen_items(r, family, k, nmax)
        if family == "tiny" and r.random() < 0.4:
            k = min(5, len(items) + r.randint(1, 2))
        plan.update({"numbins": k})
    plan["items"] = items
    plan["r_max"] = cfg["r_max"]
    if algo == "ckkgen":
        plan["b_max"] = cfg["b_max"]          # cap on bins-manager operations (the generator reads no clock)
    plan["sweep_max"] = cfg["sweep_max"]
    plan["binner"] = r.choice(["contents", "contents", "sums"])
    plan["log"] = r.choice([None, None, None, None, None, None, "INFO", "INFO", "DEBUG"])      # deployment configuration: prtpy.* logging level
    form = r.choice(["list", "list", "names", "ndarray"])
    plan["form"] = form
    if algo in ("cg", "cbldm"):
        if r.random() < 0.72:
            plan["mode"] = "sweep"
        else:
            plan["mode"] = "schedule"
            kind = r.choice(["jitter", "jump", "late_start", "boundary", "big_origin", "huge_limit"])
            s = {"kind": "uniform", "t0": 0.0, "tick": 1.0}
            if kind == "jitter":
                s = {"kind": "jitter", "t0": float(r.choice([0, 5, 1000])), "seed": r.getrandbits(32),
                     "choices": r.choice([[0.0, 1.0], [0.0, 0.0, 0.5, 2.0], [0.25, 0.5, 1.0, 4.0], [0.0, 0.0, 0.0, 1.0]])}
            elif kind == "jump":
                s["jump"] = {"at": r.randint(1, 60), "by": float(r.choice([10, 1000, 10 ** 6]))}
            elif kind == "late_start":
                s["jump"] = {"at": 1, "by": float(r.choice([10 ** 3, 10 ** 9]))}
            elif kind == "big_origin":
                s = {"kind": "uniform", "t0": 1.0e9, "tick": r.choice([1e-6, 1e-3, 0.5])}
            plan["schedule_kind"] = kind
            plan["schedule"] = s
            fr = sorted({round(r.random() * 1.1, 4) for _ in range(r.randint(4, 10))} | {0.0})
            plan["limit_fracs"] = fr
            plan["boundary"] = (kind == "boundary") or r.random() < 0.3
    return plan


# ---------------------------------------------------------------- executing the real code

def _objective(name):
    from prtpy import objectives as obj
    return {"diff": obj.MinimizeDifference, "max": obj.MinimizeLargestSum, "min": obj.MaximizeSmallestSum}[name]


def _presentation(plan):
    """-> (items as given to the algorithm, value map or None, valueof callable or None)"""
    values = plan["items"]
    form = plan.get("form", "list")
    if form == "names":
        names = [f"i{j}" for j in range(len(values))]
        vmap = dict(zip(names, values))
        return names, vmap, vmap.__getitem__
    if form == "ndarray":
        import numpy as np
        return np.array(values, dtype=np.int64), None, None
    return list(values), None, None


_counting = {}


def _counting_binner_class(kind):
    """The bins-manager is supplied by the caller, so the harness may hand over a subclass: one that counts the
    operations performed through it and raises StepBudgetExceeded (a BaseException) beyond the budget. This is the
    deterministic step cap for code that reads no clock (the CKK generator); it changes no behaviour."""
    if kind in _counting:
        return _counting[kind]
    import prtpy
    base = prtpy.BinnerKeepingContents if kind == "contents" else prtpy.BinnerKeepingSums

    class Counting(base):
        ops = 0
        budget = 10 ** 12

        def _tick(self):
            Counting.ops += 1
            if Counting.ops > Counting.budget:
                raise StepBudgetExceeded("bins-manager operations")

        def copy_bins(self, *a, **k):
            self._tick()
            return base.copy_bins(self, *a, **k)

        def sort_by_ascending_sum(self, *a, **k):
            self._tick()
            return base.sort_by_ascending_sum(self, *a, **k)

        def combine_bins(self, *a, **k):
            self._tick()
            return base.combine_bins(self, *a, **k)

        def add_item_to_bin(self, *a, **k):
            self._tick()
            return base.add_item_to_bin(self, *a, **k)
    Counting.__name__ = base.__name__
    Counting.__qualname__ = base.__qualname__
    _counting[kind] = Counting
    return Counting


def _binner(plan, valueof, budget=None):
    import prtpy
    if budget is not None:
        cls = _counting_binner_class(plan["binner"])
        cls.ops, cls.budget = 0, budget
    else:
        cls = prtpy.BinnerKeepingContents if plan["binner"] == "contents" else prtpy.BinnerKeepingSums
    return cls(valueof) if valueof is not None else cls()


def _call(plan, clock, limit):
    """One execution of the real algorithm under `clock` with `limit` (None = no limit)."""
    import numpy as np
    _seam.use(clock)
    items, vmap, valueof = _presentation(plan)
    binner = _binner(plan, valueof)
    tl = np.inf if limit is None else limit
    try:
        if plan["algo"] == "cg":
            from prtpy.partitioning import complete_greedy as cg
            sw = plan["switches"]
            res = cg.anytime(binner, plan["numbins"], items, objective=_objective(plan["objective"]),
                             use_lower_bound=sw["lb"], use_fast_lower_bound=sw["flb"], use_heuristic_3=sw["h3"],
                             use_set_of_seen_states=sw["seen"], time_limit=tl)
        else:
            from prtpy.partitioning import cbldm as cb
            kw = {}
            if plan.get("bound") is not None:
                kw["partition_difference"] = plan["bound"]
            res = cb.cbldm(binner, plan["numbins"], items, time_limit=tl, **kw)
        return ("ok", res)
    except StepBudgetExceeded:
        raise
    except RecursionError as e:
        return ("exc", e)
    except Exception as e:
        return ("exc", e)


def _items_for_oracle(plan):
    items, vmap, _ = _presentation(plan)
    return [core.plain(x) for x in (items.tolist() if hasattr(items, "tolist") else items)], vmap


def _judge(plan, outcome):
    """-> (clause|None|'no-solution', detail, value, sums); value = objective value, inf when no solution."""
    kind, res = outcome
    if kind == "exc":
        return "crash", {"exception": type(res).__name__, "message": str(res)[:200]}, None, None
    items, vmap = _items_for_oracle(plan)
    shape = "either" if plan["algo"] == "cbldm" else plan["binner"]
    clause, detail, sums = refmodels.validate_partition(plain(res), items, plan["numbins"], vmap, shape)
    if clause == "no-solution":
        return "no-solution", detail, refmodels.INF, None
    if clause is not None:
        return clause, detail, None, None
    objective = plan["objective"] if plan["algo"] == "cg" else "diff"
    return None, {}, refmodels.objective_value(objective, sums), sorted(sums)


def _optimum(plan):
    vals = plan["items"]
    if plan["algo"] == "cbldm":
        return refmodels.two_way_optimum(vals, plan.get("bound"))
    objective = plan["objective"] if plan["algo"] == "cg" else "diff"
    return refmodels.optimum(objective, refmodels.reachable_sorted(vals, plan["numbins"]))


def _instance_key(plan):
    p = {k: v for k, v in plan.items() if k not in ("family",)}
    return "%016x" % core.H("c11-instance", p)


# ---------------------------------------------------------------- execute

def execute(plan, seed=0):
    res = Result(seed, plan)
    tr = Trace()
    res.instance_key = _instance_key(plan)
    _seam.install()
    _log.configure(plan.get("log"))
    tr.add("plan", plan=plan)
    if plan["algo"] == "ckkgen":
        _execute_generator(plan, res, tr)
    elif plan.get("mode") == "schedule":
        _execute_schedule(plan, res, tr)
    else:
        _execute_sweep(plan, res, tr)
    _probe_instance(plan, res)
    if plan.get("log"):
        res.probe("logging_enabled_" + plan["log"])
        if _log.records:
            res.probe("logging_enabled_and_records_emitted")
        if _log.format_errors:
            res.note("log_record_format_errors", _log.format_errors)
    return res.finish(tr)


def _probe_instance(plan, res):
    if 0 in plan["items"]:
        res.probe("zero_valued_item_present")
    if plan["numbins"] == 1:
        res.probe("numbins_1")
    if plan["numbins"] > len(plan["items"]):
        res.probe("numbins_gt_items")
    res.cells.append("|".join(str(x) for x in (
        plan["algo"], plan.get("objective", "-"), plan["binner"], plan.get("form"),
        "".join(str(int(v)) for v in plan.get("switches", {}).values()) if plan["algo"] == "cg" else ("b%s" % plan.get("bound") if plan["algo"] == "cbldm" else "-"),
        plan.get("mode", "-"), plan.get("schedule_kind", "-"))))


def _reference_run(plan, res, tr, schedule):
    """Un-interrupted run under a counting clock. -> (outcome, readings list) or None when over budget.
    The readings are the enumeration basis for the interruption points. An implementation may legitimately not poll
    the clock at all when there is no limit; the readings are then counted in a second run whose limit is finite
    but far beyond anything the schedule can reach."""
    clock = SimClock(schedule, max_reads=plan["r_max"] + 2)
    clock.log = []
    try:
        out = _call(plan, clock, None)
        log = clock.log
        if len(log) <= 1:
            clock2 = SimClock(schedule, max_reads=plan["r_max"] + 2)
            clock2.log = []
            out2 = _call(plan, clock2, 1.0e15)
            res.evaluations += 1
            if len(clock2.log) > len(log):
                res.probe("clock_not_polled_without_limit_readings_counted_with_huge_finite_limit")
                tr.add("count-run", readings=len(clock2.log), outcome=canon(out2[1]))
                log = clock2.log
    except StepBudgetExceeded:
        res.discarded = "over_step_budget"
        tr.add("discard", why="reference run exceeds r_max readings", r_max=plan["r_max"])
        return None
    res.evaluations += 1
    res.sim_seconds += clock.elapsed
    return out, log


def _check_final(plan, res, tr, value, where):
    opt = _optimum(plan)
    tr.add("optimum", value=canon(opt))
    if value is None:
        return
    if value != opt:
        res.violate("not-optimal-unlimited", where=where, got=canon(value), optimum=canon(opt))


def _uninterruptible(plan, res, tr, out, clause, detail, vF, schedule):
    """The algorithm answered this instance without a single clock reading, also under a finite limit (a shortcut for
    a trivial input, say): there is no interruption point to enumerate. What can be judged is judged - the answer is
    valid and optimal, and finite limits give the same value. Whether the clock seam is reached AT ALL is decided
    over the whole batch (batch_harness_errors): a tree that reads another clock shows no reading in ANY run."""
    res.note("runs_without_any_clock_reading")
    if clause not in (None, "no-solution"):
        res.violate(clause, where="unlimited", **detail)
    _check_final(plan, res, tr, vF, "unlimited")
    for lim in (0.5, 7.5, 1.0e6):
        clock = SimClock(schedule, max_reads=plan["r_max"] + 50)
        o = _call(plan, clock, lim)
        res.evaluations += 1
        cl, det, v, _ = _judge(plan, o)
        tr.add("limit-no-readings", limit=lim, reads=clock.reads, outcome=canon(o[1]), clause=cl, value=canon(v))
        if cl not in (None, "no-solution"):
            res.violate(cl, limit=lim, **det)
        elif vF is not None and v is not None and v != vF and clock.reads == 0:
            res.violate("worse-with-more-time" if v < vF else "lost-solution", limit_before=lim, value_before=canon(v),
                        cut_after="unlimited", value_after=canon(vF), note="no clock reading in either run")


def batch_harness_errors(results):
    """-> list of harness-error strings decided over the whole batch."""
    clocked = sum(d["notes"].get("clocked_runs", 0) for d in results.values())
    blind = sum(d["notes"].get("runs_without_any_clock_reading", 0) for d in results.values())
    if clocked >= 20 and blind * 2 > clocked:
        return [f"clock seam not reached: {blind} of {clocked} complete-greedy / CBLDM runs made no clock reading even under a finite "
                f"limit - the tree under test seems to read a clock the simulator does not own; nothing can be concluded"]
    return []


def _execute_sweep(plan, res, tr):
    schedule = {"kind": "uniform", "t0": 0.0, "tick": 1.0}
    ref = _reference_run(plan, res, tr, schedule)
    if ref is None:
        return
    out, readings = ref
    R = len(readings)            # number of clock readings of the un-interrupted run (entry reading included)
    clause, detail, vF, _ = _judge(plan, out)
    tr.add("reference", readings=R, outcome=canon(out[1]), clause=clause, value=canon(vF))
    res.note("clocked_runs")
    if R == 0:
        _uninterruptible(plan, res, tr, out, clause, detail, vF, schedule)
        return
    if clause not in (None, "no-solution"):
        res.violate(clause, where="unlimited", **detail)
    _check_final(plan, res, tr, vF, "unlimited")
    res.probe("R_le_10" if R <= 10 else "R_11_50" if R <= 50 else "R_51_300" if R <= 300 else "R_gt_300")

    # which cuts
    all_cuts = list(range(1, R + 2))
    exhaustive = R <= plan["sweep_max"] or plan.get("cuts") == "all!"
    if isinstance(plan.get("cuts"), list):
        cuts = sorted(set(c for c in plan["cuts"] if 1 <= c <= R + 1))
        exhaustive = False
    elif exhaustive:
        cuts = all_cuts
    else:
        r = core.rng(core.H("c11-cuts", plan), "c11-cut-sample")
        s = set(all_cuts[:48]) | set(all_cuts[-48:]) | set(r.sample(all_cuts, 48))
        cuts = sorted(s)
        res.probe("sampled_sweep_instances")

    vals = {}      # cut -> value (inf no-solution, None invalid)
    sums_at = {}

    def run_cut(c):
        clock = SimClock(schedule, max_reads=plan["r_max"] + 50)
        o = _call(plan, clock, c - 0.5)
        res.evaluations += 1
        res.sim_seconds += clock.elapsed
        fired = clock.reads < R
        if fired:
            res.nontrivial += 1
            res.fault("clock_limit_fired")
        cl, det, v, sm = _judge(plan, o)
        tr.add("cut", c=c, reads=clock.reads, fired=fired, outcome=canon(o[1]), clause=cl, value=canon(v))
        if cl not in (None, "no-solution"):
            res.violate(cl, cut=c, limit=c - 0.5, **det)
        vals[c] = v
        if cl is None:
            sums_at[c] = sm
        return v

    for c in cuts:
        run_cut(c)

    if not exhaustive and not isinstance(plan.get("cuts"), list):
        # bisect every change of value between neighbouring sampled cuts, so that the cuts right
        # before and after each improvement are executed
        todo = [(a, b) for a, b in zip(cuts, cuts[1:]) if b - a > 1 and vals[a] != vals[b]]
        budget = 160
        while todo and budget > 0:
            a, b = todo.pop()
            m = (a + b) // 2
            run_cut(m)
            budget -= 1
            for (x, y) in ((a, m), (m, b)):
                if y - x > 1 and vals[x] != vals[y]:
                    todo.append((x, y))
        cuts = sorted(vals)

    dense = 0
    for c in cuts:
        if c != dense + 1:
            break
        dense = c
    _sequence_oracle(plan, res, tr, cuts, vals, sums_at, vF, R, dense)


def _sequence_oracle(plan, res, tr, cuts, vals, sums_at, vF, R, dense):
    """dense = largest c such that every cut 1..c was executed."""
    # only-improves: v non-increasing in the cut
    prev_c, prev_v = None, None
    improvements = 0
    profile = []
    for c in cuts:
        v = vals[c]
        if v is None:
            continue
        if prev_v is not None and v > prev_v:
            clause = "lost-solution" if v == refmodels.INF else "worse-with-more-time"
            res.violate(clause, cut_before=prev_c, value_before=canon(prev_v), cut_after=c, value_after=canon(v))
        if prev_v is not None and v < prev_v:
            profile.append((c, v))
            if prev_v != refmodels.INF:
                improvements += 1
        prev_c, prev_v = c, v
    # the cut that never fires equals the un-interrupted run
    last = cuts[-1]
    if last == R + 1 and vals[last] is not None and vF is not None and vals[last] != vF:
        res.violate("worse-with-more-time", cut_before=last, value_before=canon(vals[last]), cut_after="unlimited", value_after=canon(vF))
    # first solution is LPT (complete greedy). What is observable from outside without assuming how often the
    # clock is polled: since the search starts from the LPT solution and only improves, NO returned solution may
    # be worse than LPT. (Demanding that the first *observed* solution has LPT's sums would flag an implementation
    # that polls the clock every other node - its first observable result may already be an improvement.)
    if plan["algo"] == "cg":
        lpt = refmodels.lpt_sums(plan["items"], plan["numbins"])
        lv = refmodels.objective_value(plan["objective"], lpt)
        first = next((c for c in cuts if vals[c] is not None and vals[c] != refmodels.INF), None)
        if first is not None:
            if vals[first] > lv:
                res.violate("first-not-lpt", cut=first, value=canon(vals[first]), lpt_value=canon(lv), lpt_sums=lpt, got_sums=sums_at.get(first))
            got = sums_at.get(first)
            if first <= dense and got is not None and [float(x) for x in got] == [float(x) for x in lpt]:
                res.probe("first_observed_solution_has_exactly_lpt_sums")
            elif first <= dense and vals[first] == lv:
                res.probe("first_observed_solution_has_lpt_value_other_sums")
            elif first <= dense:
                res.probe("first_observed_solution_better_than_lpt")
            if first > 1:
                res.probe("cut_before_first_leaf")
    if improvements >= 1:
        res.probe("instance_with_ge1_improvement_after_first")
        res.probe("cut_between_two_improvements")
    if improvements >= 2:
        res.probe("instance_with_ge2_improvements_after_first")
    if improvements >= 3:
        res.probe("instance_with_ge3_improvements_after_first")
    if vals.get(1) == refmodels.INF:
        res.probe("limit_fired_at_first_test_no_solution")
    tr.add("profile", profile=[[c, canon(v)] for c, v in profile])
    res.cells.append("@profile:%016x" % core.H([[c, canon(v)] for c, v in profile]))


def _execute_schedule(plan, res, tr):
    schedule = plan["schedule"]
    ref = _reference_run(plan, res, tr, schedule)
    if ref is None:
        return
    out, readings = ref
    R = len(readings)
    clause, detail, vF, _ = _judge(plan, out)
    tr.add("reference", readings=R, outcome=canon(out[1]), clause=clause, value=canon(vF))
    res.note("clocked_runs")
    if R == 0:
        _uninterruptible(plan, res, tr, out, clause, detail, vF, schedule)
        return
    if clause not in (None, "no-solution"):
        res.violate(clause, where="unlimited", **detail)
    _check_final(plan, res, tr, vF, "unlimited")
    t0 = readings[0]
    span = readings[-1] - t0
    limits = []
    for f in plan["limit_fracs"]:
        if plan.get("boundary"):
            idx = min(R - 1, max(1, int(round(f * (R - 1)))))
            lim = readings[idx] - t0            # a reading exactly equal to start+limit
            res.probe("equality_boundary_limit")
        else:
            lim = f * span
        if lim > 0:
            limits.append(lim)
    limits.append(2 * span + 10)
    if plan.get("schedule_kind") == "huge_limit":
        limits.append(1.0e18)
    limits = sorted(set(limits))
    prev_v, prev_l = None, None
    for lim in limits:
        clock = SimClock(schedule, max_reads=plan["r_max"] + 50)
        o = _call(plan, clock, lim)
        res.evaluations += 1
        res.sim_seconds += clock.elapsed
        fired = clock.reads < R
        if fired:
            res.nontrivial += 1
            res.fault("clock_limit_fired")
            res.fault("clock_" + plan.get("schedule_kind", "uniform"))
        cl, det, v, _ = _judge(plan, o)
        tr.add("limit", limit=lim, reads=clock.reads, fired=fired, outcome=canon(o[1]), clause=cl, value=canon(v))
        if cl not in (None, "no-solution"):
            res.violate(cl, limit=lim, schedule=schedule, **det)
        if v is not None:
            if prev_v is not None and v > prev_v:
                res.violate("lost-solution" if v == refmodels.INF else "worse-with-more-time",
                            limit_before=prev_l, value_before=canon(prev_v), limit_after=lim, value_after=canon(v))
            prev_v, prev_l = v, lim
        if lim >= 2 * span + 10 and v is not None and vF is not None and v != vF:
            # a limit well beyond the last reading of the un-interrupted run can never fire (the margin keeps
            # float rounding of start+limit at large clock origins out of the verdict)
            res.violate("worse-with-more-time", limit_before=lim, value_before=canon(v), cut_after="unlimited", value_after=canon(vF))
    if prev_v is not None and vF is not None and vF > prev_v:
        res.violate("worse-with-more-time", limit_before=prev_l, value_before=canon(prev_v), cut_after="unlimited", value_after=canon(vF))


# ---------------------------------------------------------------- CKK generator under a simulated consumer

def _gen_objects(plan):
    from prtpy.partitioning import complete_karmarkar_karp_sy as ckk
    items, vmap, valueof = _presentation(plan)
    binner = _binner(plan, valueof, budget=plan.get("b_max", 150000))
    return ckk.generator(binner, plan["numbins"], items)


def _execute_generator(plan, res, tr):
    import warnings
    warnings.simplefilter("ignore")
    items, vmap = _items_for_oracle(plan)
    k = plan["numbins"]
    yielded, snaps, diffs = [], [], []
    truncated = False
    try:
        g = _gen_objects(plan)
        for y in g:
            yielded.append(y)
            snaps.append(core.jdump(canon(y)))
            cl, det, sums = refmodels.validate_partition(plain(y), items, k, vmap, "either")
            tr.add("yield", j=len(yielded), obj=canon(y), clause=cl)
            if cl is not None:
                res.violate("gen-invalid", j=len(yielded), why=cl, **det)
                diffs.append(None)
            else:
                d = refmodels.objective_value("diff", sums)
                if diffs and diffs[-1] is not None and not d < diffs[-1]:
                    res.violate("gen-not-strict", j=len(yielded), previous=canon(diffs[-1]), this=canon(d))
                diffs.append(d)
            if len(yielded) >= 400:
                truncated = True          # consumer walks away; strictness of every consecutive pair so far was judged
                res.probe("generator_consumer_stopped_after_400_yields")
                break
    except StepBudgetExceeded:
        # what was yielded so far has been judged (validity, strictness); optimality of the last yield and the
        # abandon points cannot be, the search being cut off by the harness
        res.discarded = "over_step_budget"
        tr.add("discard", why="generator exceeds the bins-manager operation budget", yields=len(yielded))
        res.evaluations += 1
        return
    except Exception as e:
        res.violate("crash", exception=type(e).__name__, message=str(e)[:200], after_yields=len(yielded))
        tr.add("gen-exc", exc=type(e).__name__)
        return
    res.evaluations += 1
    Y = len(yielded)
    opt = _optimum(plan)
    tr.add("optimum", value=canon(opt))
    if not truncated and (Y == 0 or diffs[-1] is None or diffs[-1] != opt):
        res.violate("gen-last-not-optimal", yields=Y, last=canon(diffs[-1]) if Y else None, optimum=canon(opt))
    # every yielded object still is what it was when yielded
    for j, (y, s) in enumerate(zip(yielded, snaps), 1):
        if core.jdump(canon(y)) != s:
            res.violate("gen-mutated-after-yield", j=j, at_yield=s[:300], now=core.jdump(canon(y))[:300])
    if Y >= 2:
        res.probe("generator_ge2_yields")
    if Y >= 3:
        res.probe("generator_ge3_yields")
    # abandon after the j-th yield
    points = sorted(set(list(range(1, min(Y, 8) + 1)) + [Y - 1, Y] + core.rng(core.H("c11-abandon", plan), "abandon").sample(range(1, Y + 1), min(Y, 6)))) if Y else []
    for j in [p for p in points if 1 <= p <= Y]:
        try:
            g = _gen_objects(plan)
            got = []
            for _ in range(j):
                got.append(next(g))
            g.close()
            res.evaluations += 1
            res.nontrivial += 1
            res.fault("consumer_abandoned_generator")
            same = core.jdump(canon(got[-1])) == snaps[j - 1]
            tr.add("abandon", after=j, same_as_full_run=same)
            if not same:
                res.violate("gen-invalid", j=j, why="j-th yield differs between two consumptions of the same generator call")
        except Exception as e:
            res.violate("gen-close-raised", after=j, exception=type(e).__name__, message=str(e)[:200])
            tr.add("abandon-exc", after=j, exc=type(e).__name__)


# ---------------------------------------------------------------- shrinking

def shrink_candidates(plan, clause):
    items = plan["items"]
    base = {k: v for k, v in plan.items()}

    def mk(**kw):
        p = dict(base)
        p.update(kw)
        return p
    # drop items
    if len(items) > 1:
        for i in range(len(items)):
            yield mk(items=items[:i] + items[i + 1:])
    # fewer bins
    if plan["algo"] != "cbldm" and plan["numbins"] > 1:
        yield mk(numbins=plan["numbins"] - 1)
    # simpler presentation
    if plan.get("log"):
        yield mk(log=None)
    if plan.get("form") != "list":
        yield mk(form="list")
    if plan["binner"] != "contents":
        yield mk(binner="contents")
    if plan.get("mode") == "schedule":
        p = mk(mode="sweep")
        for k in ("schedule", "schedule_kind", "limit_fracs", "boundary"):
            p.pop(k, None)
        yield p
        if plan["schedule"]["kind"] != "uniform" or plan["schedule"].get("jump"):
            yield mk(schedule={"kind": "uniform", "t0": 0.0, "tick": 1.0}, schedule_kind="uniform")
        if len(plan["limit_fracs"]) > 1:
            for i in range(len(plan["limit_fracs"])):
                yield mk(limit_fracs=plan["limit_fracs"][:i] + plan["limit_fracs"][i + 1:])
    if plan["algo"] == "cg":
        sw = plan["switches"]
        default = {"lb": True, "flb": True, "h3": False, "seen": True}
        for k in sw:
            if sw[k] != default[k]:
                s2 = dict(sw)
                s2[k] = default[k]
                yield mk(switches=s2)
        if plan["objective"] != "diff":
            yield mk(objective="diff")
    if plan["algo"] == "cbldm" and plan.get("bound") is not None:
        yield mk(bound=None)
    # smaller values
    for i, v in enumerate(items):
        for nv in sorted({0, 1, v // 2, v - 1}):
            if 0 <= nv < v:
                yield mk(items=items[:i] + [nv] + items[i + 1:])


def sample_for_evidence(plan, result):
    p = {k: v for k, v in plan.items() if not k.startswith("_")}
    return {"run_seed": result["seed"], "plan": p, "evaluations": result["evaluations"],
            "interruption_points_that_fired": result["nontrivial"], "digest": result["digest"]}


MEASURES = {"profile": "distinct_anytime_profiles"}
