"""
C16 - bins-manager operations keep sums and contents consistent, copies independent.

System under simulation: the two real bins-managers. Simulated: the caller, i.e. the order
of operations over a pool of live (aliased) arrays, and the caller-supplied valueof, which
can fail. There is no clock and no external component in this property; what the simulator
contributes is seeded history generation over aliased state, a reference model consulted on
ALL live arrays after every step, failing operations inside histories, minimised replay.
"""
from dsim import core, refmodels
from dsim.core import Result, Trace, canon, plain, InjectedFault
from dsim.refmodels import BinsModel
from dsim.seams import make_fault, FAULT_EXCEPTIONS

_FAULTS = tuple(FAULT_EXCEPTIONS.values())

ID = "C16"
LEVEL = "exploration"
RUN_WALL_WATCHDOG_S = 120.0

TIERS = {
    "quick":    {"runs": 60000, "chunk": 60, "wall_cap_s": 75, "max_ops": 80,
                 "det_sample_min": 16, "det_sample_frac": 0.002, "max_reports": 3, "shrink_candidates": 400},
    "thorough": {"runs": 700000, "chunk": 200, "wall_cap_s": 1500, "max_ops": 160,
                 "det_sample_min": 64, "det_sample_frac": 0.0005, "max_reports": 4, "shrink_candidates": 800,
                 "fresh_interpreter_check": True, "fresh_sample": 48},
}

RULE = ("One run = one seeded history of 10..max_ops operations (new, add item [also negative indices], copy, sort, add-empty, remove, "
        "concatenate, combine [also negative indices], readers; python and numpy integer indices; plus failing operations: out-of-range bin index, "
        "valueof raising an ordinary error / KeyError / MemoryError / KeyboardInterrupt) over a pool of <= 8 live "
        "bins-arrays of one manager, respecting the hand-over discipline (an array passed to add-empty/remove/concatenate is retired). "
        "After EVERY operation every live array is compared with a list-of-lists reference model (bin count, each sum == total value of "
        "the model bin, contents per bin as a multiset, numitems), arguments documented as unmodified are compared before/after, and a legal "
        "operation that raises is a violation. Item values: names with integer or dyadic values, integers, dyadic fractions, integers beyond float32 precision. "
        "evaluations = operations executed and judged. A history is non-trivial when it mutates (add/sort/combine) an array that has a "
        "live relative (its copy/original, or an array derived from it by add-empty/remove/concatenate) - i.e. when aliasing could matter; "
        "distinct = distinct plans (hash of the whole history) among those.")

ASSUMPTIONS = [
    "histories respect the hand-over discipline stated in the property; concatenate/combine with the same array on both sides are not generated (the docstrings contradict themselves there)",
    "item values are integers or dyadic fractions, so model sums are exact in float64",
    "order of items inside a bin and stability of sort are not demanded; atomicity of an operation that raised is not demanded (only sum==contents and 'other arrays unchanged' afterwards)",
    "sampling over histories, not exhaustive",
]

COMPONENTS = {
    "real": ["prtpy.binners.BinnerKeepingSums", "prtpy.binners.BinnerKeepingContents", "numpy"],
    "simulated": ["the caller: order of operations over a pool of live arrays -> seeded history", "caller-supplied valueof -> dsim.seams.FaultyValueOf-style callable that raises on demand"],
    "stubbed": [],
}

MEASURES = {"tri": "distinct_operation_kind_trigrams", "pool": "distinct_abstract_pool_states"}

_MUTATORS = ("add", "sort", "combine")


# ---------------------------------------------------------------- plan generation (pure: tracks only bin counts and lineage)

def gen_plan(seed, tier):
    cfg = TIERS[tier]
    r = core.rng(seed, "c16-swarm")
    manager = r.choice(["contents", "sums"])
    vkind = r.choice(["names", "names", "identity_int", "identity_frac", "identity_large"])
    names = [f"x{j}" for j in range(r.randint(3, 12))]
    if vkind == "names":
        dy = r.random() < 0.25
        values = {n: (r.randint(0, 40) / (r.choice([1, 2, 4, 8]) if dy else 1)) if dy else r.randint(0, 50) for n in names}
        pool_items = names
    elif vkind == "identity_int":
        values = None
        pool_items = [r.randint(0, 50) for _ in names]
    elif vkind == "identity_large":
        # values that a float32 or int32 sums array cannot hold exactly (all sums stay far below 2^53)
        values = None
        pool_items = [r.choice([2 ** 24 + 1, 2 ** 31 + 7, 2 ** 40 + 3, 3 * 2 ** 33 + 1, 16777217, 123456789012]) + r.randint(0, 9) for _ in names]
    else:
        values = None
        pool_items = [r.randint(0, 64) / r.choice([1, 2, 4, 8]) for _ in names]
    nops = r.randint(10, cfg["max_ops"])
    # swarm: weights of operation kinds differ per run; some kinds are switched off entirely
    kinds = ["new", "add", "copy", "sort", "addempty", "remove", "concat", "combine", "read"]
    w = {k: r.choice([0, 1, 1, 2, 3]) for k in kinds}
    w["add"] = max(w["add"], 2)
    w["new"] = max(w["new"], 1)
    p_bad_index = r.choice([0, 0, 0.03, 0.1])
    p_valueof_fail = r.choice([0, 0, 0.03, 0.1])
    live = {}      # id -> number of bins
    cont = {}      # id -> list of lists of items (the generator's own picture of the contents; only used to keep
    #                histories small: repeated combine_bins can double the length of a bin with every operation)
    vof = (lambda x: x) if values is None else values.__getitem__
    ops = []
    next_id = 0

    def fresh():
        nonlocal next_id
        i = next_id
        next_id += 1
        return i

    for _ in range(nops):
        cands = [k for k in kinds if w[k] > 0]
        if not live:
            kind = "new"
        else:
            kind = r.choices(cands, weights=[w[k] for k in cands])[0]
        if len(live) >= 8 and kind in ("new", "copy"):
            kind = r.choice(["concat", "add", "sort", "remove"])
        if kind == "concat" and len(live) < 2:
            kind = "new"
        if kind == "combine" and len(live) < 2:
            kind = "copy"
        ids = sorted(live)
        if kind == "new":
            i = fresh()
            n = r.choice([0, 1, 1, 2, 2, 3, 3, 4, 5]) if r.random() > 0.04 else r.randint(9, 40)      # sizes are arbitrary: now and then a large one
            live[i] = n
            cont[i] = [[] for _ in range(n)]
            ops.append({"op": "new", "n": n, "out": i})
        elif kind == "add":
            a = r.choice(ids)
            nb = live[a]
            item = r.choice(pool_items)
            op = {"op": "add", "arr": a, "item": item}
            if nb == 0 or r.random() < p_bad_index:
                op["idx"] = r.choice([nb, nb + 1, -nb - 1, nb + 7])
                op["fault"] = "badindex"
            else:
                op["idx"] = r.randint(-nb, nb - 1)
                cont[a][op["idx"]].append(item)          # (a valueof fault may prevent it: the picture is an upper bound)
                if r.random() < 0.25:
                    op["idx_np"] = True          # the index is a numpy integer (what np.argmin / np.argmax hand to the algorithms)
                if r.random() < p_valueof_fail:
                    op["fault"] = "valueof"
                    op["exc"] = r.choices(["InjectedFault", "KeyError", "MemoryError", "KeyboardInterrupt"], weights=[45, 15, 10, 30])[0]
            ops.append(op)
        elif kind == "copy":
            a = r.choice(ids)
            i = fresh()
            live[i] = live[a]
            cont[i] = [list(b) for b in cont[a]]
            ops.append({"op": "copy", "arr": a, "out": i})
        elif kind == "sort":
            a = r.choice(ids)
            cont[a].sort(key=lambda b: sum(vof(x) for x in b))
            ops.append({"op": "sort", "arr": a})
        elif kind == "addempty":
            a = r.choice(ids)
            n = r.choice([0, 1, 1, 1, 2, 3]) if r.random() > 0.06 or live[a] > 60 else r.randint(8, 40)
            i = fresh()
            live[i] = live.pop(a) + n
            cont[i] = cont.pop(a) + [[] for _ in range(n)]
            ops.append({"op": "addempty", "arr": a, "n": n, "out": i})
        elif kind == "remove":
            a = r.choice(ids)
            n = r.randint(0, live[a]) if r.random() < 0.3 else min(live[a], r.choice([0, 1, 1, 1, 2]))
            i = fresh()
            live[i] = live.pop(a) - n
            old = cont.pop(a)
            cont[i] = old[:len(old) - n]
            ops.append({"op": "remove", "arr": a, "n": n, "out": i})
        elif kind == "concat":
            a, b = r.sample(ids, 2)
            if live[a] + live[b] > 48:
                # copy + concatenate doubles the number of bins: keep arrays small (the hang this prevents was seen
                # in the thorough tier: 46 concatenations and 29 copies in one history)
                ops.append({"op": "read", "arr": a})
                continue
            i = fresh()
            live[i] = live.pop(a) + live.pop(b)
            cont[i] = cont.pop(a) + cont.pop(b)
            ops.append({"op": "concat", "a": a, "b": b, "out": i})
        elif kind == "combine":
            a, b = r.sample(ids, 2)
            if live[a] == 0 or live[b] == 0 or r.random() < p_bad_index:
                op = {"op": "combine", "a": a, "i": live[a] + r.choice([0, 1, 5]), "b": b, "j": live[b] + r.choice([0, 2]), "fault": "badindex"}
                if r.random() < 0.5 and live[a] > 0:
                    op["i"] = r.randrange(live[a])         # only the source index is bad
                elif r.random() < 0.5 and live[b] > 0:
                    op["j"] = r.randrange(live[b])         # only the target index is bad
                ops.append(op)
            else:
                # python / numpy indexing: negative indices are legal for the target bin and for the source bin
                ci = r.randint(-live[a], live[a] - 1) if r.random() < 0.3 else r.randrange(live[a])
                cj = r.randint(-live[b], live[b] - 1) if r.random() < 0.3 else r.randrange(live[b])
                if len(cont[a][ci]) + len(cont[b][cj]) > 120:
                    ops.append({"op": "read", "arr": a})          # keep bins small (see `cont` above)
                else:
                    cont[a][ci] = cont[a][ci] + cont[b][cj]
                    ops.append({"op": "combine", "a": a, "i": ci, "b": b, "j": cj})
        else:
            ops.append({"op": "read", "arr": r.choice(ids)})
    return {"prop": "C16", "manager": manager, "values": values, "ops": ops}


# ---------------------------------------------------------------- execution

class _ValueOf:
    def __init__(self, values):
        self.values = values
        self.fail_next = False
        self.exc = "InjectedFault"
        self.calls = 0
        self.fired = 0

    def __call__(self, item):
        self.calls += 1
        if self.fail_next:
            self.fail_next = False
            self.fired += 1
            raise make_fault(self.exc, "valueof failed")
        return item if self.values is None else self.values[item]


def _idx(op):
    if op.get("idx_np"):
        import numpy as np
        return np.int64(op["idx"])
    return op["idx"]


def _observe(manager, arr):
    """Plain view of a real array: (sums list, lists or None)."""
    if manager == "contents":
        sums, lists = arr
        return [float(x) for x in plain(sums)], [list(plain(b)) for b in lists]
    return [float(x) for x in plain(arr)], None


def _msorted(b):
    return sorted(b, key=lambda x: (str(type(x).__name__), x))


def _agrees(manager, obs, model, val, exact_order=True):
    """Compare an observed array with the model. Returns None or a (clause, detail)."""
    sums, lists = obs
    want = [float(s) for s in model.sums_with(val)]
    if len(sums) != len(model.bins) or (lists is not None and len(lists) != len(model.bins)):
        return "wrong-effect", {"why": "number of bins", "got": len(sums), "want": len(model.bins)}
    if lists is not None:
        true = [float(sum(val(i) for i in b)) for b in lists]
        if true != sums:
            return "sum-ne-contents", {"sums": sums, "contents_total": true}
        for k, (b, mb) in enumerate(zip(lists, model.bins)):
            if _msorted(b) != _msorted(mb):
                return "wrong-effect", {"why": "contents of bin", "bin": k, "got": b, "want": mb}
    if sums != want:
        return "wrong-effect", {"why": "sums", "got": sums, "want": want}
    return None


class _Model(BinsModel):
    def sums_with(self, val):
        return [sum(val(i) for i in b) for b in self.bins]

    def copy(self):
        return _Model(bins=self.bins)


def execute(plan, seed=0):
    import prtpy
    res = Result(seed, plan)
    tr = Trace()
    res.instance_key = "%016x" % core.H("c16", plan)
    manager = plan["manager"]
    values = plan["values"]
    vo = _ValueOf(values)
    B = (prtpy.BinnerKeepingContents if manager == "contents" else prtpy.BinnerKeepingSums)(vo)
    val = (lambda x: x) if values is None else values.__getitem__
    real = {}        # id -> real array (live)
    model = {}       # id -> _Model
    lineage = {}     # id -> set of ids sharing ancestry (relatives)
    klass = {}       # id -> lineage class name
    kinds_seen = []
    nontrivial = False
    tr.add("plan", manager=manager, nops=len(plan["ops"]))

    def relatives_live(a):
        return any(x in real for x in lineage.get(a, ()) if x != a)

    def link(new, *olds):
        fam = {new}
        for o in olds:
            fam |= lineage.get(o, {o})
        for x in fam:
            lineage[x] = fam

    def check_all(step, op, touched=()):
        for i in sorted(real):
            bad = _agrees(manager, _observe(manager, real[i]), model[i], val)
            if bad:
                clause, det = bad
                if i not in touched and clause == "wrong-effect":
                    # an array that this operation should not have touched changed
                    related = any(t in lineage.get(i, ()) for t in touched)
                    clause = "copy-not-independent" if (related and op["op"] in ("add", "sort", "combine", "copy")) else "argument-altered" if related else "wrong-effect"
                res.violate(clause, step=step, op=op, array=i, **det)
                return False
        return True

    for step, op in enumerate(plan["ops"]):
        k = op["op"]
        kinds_seen.append(k + ("!" if op.get("fault") else ""))
        # validity of the candidate plan (after shrinking an op may refer to a retired/missing array)
        refs = [op[x] for x in ("arr", "a", "b") if x in op]
        if any(x not in real for x in refs) or ("out" in op and op["out"] in real) or (k in ("concat", "combine") and op["a"] == op["b"]):
            res.notes["invalid_plan"] = 1
            d = res.finish(tr)
            return _Invalid(res)
        # a shrunk candidate may have turned a legal index into an out-of-range one or vice versa: not executable as labelled
        if k == "add":
            nb = len(model[op["arr"]].bins)
            if (-nb <= op["idx"] < nb) == (op.get("fault") == "badindex"):
                res.notes["invalid_plan"] = 1
                res.finish(tr)
                return _Invalid(res)
        if k == "combine":
            na, nb_ = len(model[op["a"]].bins), len(model[op["b"]].bins)
            if ((-na <= op["i"] < na) and (-nb_ <= op["j"] < nb_)) == (op.get("fault") == "badindex"):
                res.notes["invalid_plan"] = 1
                res.finish(tr)
                return _Invalid(res)
        res.evaluations += 1
        outcome = None
        try:
            if k == "new":
                arr = B.new_bins(op["n"])
                real[op["out"]] = arr
                model[op["out"]] = _Model(op["n"])
                link(op["out"])
                klass[op["out"]] = "fresh"
                outcome = "ok"
            elif k == "add":
                a = op["arr"]
                if op.get("fault") == "valueof":
                    vo.fail_next = True
                    vo.exc = op.get("exc", "InjectedFault")
                before = _observe(manager, real[a])
                fired0 = vo.fired
                try:
                    ret = B.add_item_to_bin(real[a], op["item"], _idx(op))
                except _FAULTS + (IndexError,) as e:
                    injected = vo.fired > fired0
                    vo.fail_next = False
                    outcome = "raised:" + type(e).__name__
                    if not injected and op.get("fault") != "badindex":
                        res.violate("wrong-effect", step=step, op=op, why="a legal operation raised", exception=type(e).__name__, message=str(e)[:200])
                    res.fault("valueof_raised_" + type(e).__name__ if injected else "bad_index_raised")
                    _after_failed_op(manager, res, step, op, a, real, model, val, before)
                else:
                    if op.get("fault") == "badindex":
                        # numpy/list accepted an index we believed out of range: treat by python semantics
                        res.violate("wrong-effect", step=step, op=op, why="out-of-range index accepted")
                    vo.fail_next = False
                    model[a].add(op["item"], op["idx"])
                    outcome = "ok"
                    if relatives_live(a):
                        nontrivial = True
                        res.probe("add_with_live_relative")
                    # the returned value is "the bins after the addition"
                    bad = _agrees(manager, _observe(manager, ret), model[a], val)
                    if bad:
                        res.violate("wrong-effect", step=step, op=op, why="returned array is not the array after the addition", **bad[1])
            elif k == "copy":
                a = op["arr"]
                snap = core.jdump(canon(real[a]))
                arr = B.copy_bins(real[a])
                if core.jdump(canon(real[a])) != snap:
                    res.violate("argument-altered", step=step, op=op, argument=a)
                real[op["out"]] = arr
                model[op["out"]] = model[a].copy()
                link(op["out"], a)
                klass[op["out"]] = "copied"
                outcome = "ok"
            elif k == "sort":
                a = op["arr"]
                before = _observe(manager, real[a])
                B.sort_by_ascending_sum(real[a])
                after = _observe(manager, real[a])
                outcome = "ok"
                s = after[0]
                if any(s[i] > s[i + 1] for i in range(len(s) - 1)):
                    res.violate("sort-not-sorted", step=step, op=op, sums=s)
                if manager == "contents":
                    pb = sorted((x, _msorted(b)) for x, b in zip(before[0], before[1]))
                    pa = sorted((x, _msorted(b)) for x, b in zip(after[0], after[1]))
                    if core.jdump(canon(pb)) != core.jdump(canon(pa)):
                        res.violate("sort-lost-pairs", step=step, op=op, before=canon(pb), after=canon(pa))
                    else:
                        model[a] = _Model(bins=after[1])         # adopt the real tie order (stability not demanded)
                    if len(set(before[0])) < len(before[0]):
                        res.probe("sort_with_ties")
                else:
                    if sorted(before[0]) != after[0]:
                        res.violate("sort-lost-pairs", step=step, op=op, before=before[0], after=after[0])
                    else:
                        model[a].bins.sort(key=lambda b: sum(val(i) for i in b))
                if relatives_live(a):
                    nontrivial = True
                    res.probe("sort_with_live_relative")
            elif k in ("addempty", "remove"):
                a = op["arr"]
                snap = core.jdump(canon(real[a]))
                arr = B.add_empty_bins(real[a], op["n"]) if k == "addempty" else B.remove_bins(real[a], op["n"])
                if core.jdump(canon(real[a])) != snap:
                    res.violate("argument-altered", step=step, op=op, argument=a)
                m = model[a].add_empty(op["n"]) if k == "addempty" else model[a].remove(op["n"])
                del real[a]            # hand-over: the argument is retired
                old = model.pop(a)
                real[op["out"]] = arr
                model[op["out"]] = _Model(bins=m.bins)
                link(op["out"], a)
                klass[op["out"]] = "derived-" + k
                outcome = "ok"
                if k == "remove" and len(m.bins) == 0:
                    res.probe("remove_down_to_zero_bins")
            elif k == "concat":
                a, b = op["a"], op["b"]
                sa, sb = core.jdump(canon(real[a])), core.jdump(canon(real[b]))
                arr = B.concatenate_bins(real[a], real[b])
                if core.jdump(canon(real[a])) != sa:
                    res.violate("argument-altered", step=step, op=op, argument=a)
                if core.jdump(canon(real[b])) != sb:
                    res.violate("argument-altered", step=step, op=op, argument=b)
                m = model[a].concat(model[b])
                if klass.get(a, "").startswith("derived") and klass.get(b, "").startswith("derived"):
                    res.probe("concatenate_two_derived_arrays")
                for x in (a, b):
                    del real[x]
                    model.pop(x)
                real[op["out"]] = arr
                model[op["out"]] = _Model(bins=m.bins)
                link(op["out"], a, b)
                klass[op["out"]] = "derived-concat"
                outcome = "ok"
            elif k == "combine":
                a, b = op["a"], op["b"]
                sb = core.jdump(canon(real[b]))
                before = _observe(manager, real[a])
                try:
                    B.combine_bins(real[a], op["i"], real[b], op["j"])
                except IndexError as e:
                    outcome = "raised:IndexError"
                    res.fault("bad_index_raised")
                    if op.get("fault") != "badindex":
                        res.violate("wrong-effect", step=step, op=op, why="a legal operation raised", exception="IndexError", message=str(e)[:200])
                    _after_failed_op(manager, res, step, op, a, real, model, val, before)
                else:
                    if op.get("fault") == "badindex" and not (-len(model[a].bins) <= op["i"] < len(model[a].bins) and -len(model[b].bins) <= op["j"] < len(model[b].bins)):
                        res.violate("wrong-effect", step=step, op=op, why="out-of-range index accepted")
                    else:
                        model[a].combine(op["i"], model[b], op["j"])
                    outcome = "ok"
                    if relatives_live(a):
                        nontrivial = True
                        res.probe("combine_with_live_relative")
                if core.jdump(canon(real[b])) != sb:
                    res.violate("argument-altered", step=step, op=op, argument=b)
            elif k == "read":
                a = op["arr"]
                snap = core.jdump(canon(real[a]))
                nb = B.numbins(real[a])
                sums = [float(x) for x in plain(B.sums(real[a]))]
                if nb != len(model[a].bins):
                    res.violate("wrong-effect", step=step, op=op, why="numbins", got=nb, want=len(model[a].bins))
                if sums != [float(x) for x in model[a].sums_with(val)]:
                    res.violate("wrong-effect", step=step, op=op, why="sums reader", got=sums)
                for bi in range(len(model[a].bins)):
                    try:
                        ni = B.numitems(real[a], bi)
                    except Exception as e:
                        # the sums-only manager cannot count items; HOW it refuses (which error) is not C16's business
                        if manager == "contents":
                            res.violate("numitems-wrong", step=step, op=op, bin=bi, why="refused", exception=type(e).__name__)
                        continue
                    if manager == "sums":
                        # a sums-only manager that answers anyway concerns property C19, not C16: recorded, not judged here
                        res.note("sums_manager_counted_items")
                    elif ni != len(model[a].bins[bi]):
                        res.violate("numitems-wrong", step=step, op=op, bin=bi, got=canon(ni), want=len(model[a].bins[bi]))
                if core.jdump(canon(real[a])) != snap:
                    res.violate("argument-altered", step=step, op=op, argument=a)
                outcome = "ok"
            else:
                raise ValueError("unknown op " + k)
        except (InjectedFault, KeyboardInterrupt, MemoryError) as e:
            outcome = "raised:" + type(e).__name__
            res.violate("wrong-effect", step=step, op=op, why="injected valueof fault surfaced from an operation that was not given one")
        except Exception as e:
            outcome = "raised:" + type(e).__name__
            res.violate("wrong-effect", step=step, op=op, why="operation raised", exception=type(e).__name__, message=str(e)[:200])
        touched = tuple(op[x] for x in ("arr", "a", "out") if x in op)
        ok = check_all(step, op, touched)
        state = sorted((len(model[i].bins), klass.get(i, "?")) for i in real)
        tr.add("op", step=step, op=op, outcome=outcome, live=sorted(real), state=canon({i: model[i].bins for i in sorted(model)}))
        res.cells.append("@pool:%016x" % core.H(state))
        if len(kinds_seen) >= 3:
            res.cells.append("@tri:" + ">".join(kinds_seen[-3:]))
        if res.violations:
            break
    res.nontrivial = 1 if nontrivial else 0
    res.cells.append(manager + "|" + ("names" if values is not None else "identity"))
    return res.finish(tr)


def _after_failed_op(manager, res, step, op, a, real, model, val, before):
    """Atomicity of a failed operation is not demanded - only that sums still equal contents.
    The model is re-synchronised from the array."""
    obs = _observe(manager, real[a])
    if manager == "contents":
        true = [float(sum(val(i) for i in b)) for b in obs[1]]
        if true != obs[0]:
            res.violate("invariant-after-failed-op", step=step, op=op, sums=obs[0], contents_total=true)
        elif obs != before:
            res.probe("failed_op_partially_applied")
            model[a] = _Model(bins=obs[1])
    else:
        if obs != before:
            # sums-only manager: accept the state "effect fully applied" as well
            m2 = model[a].copy()
            try:
                if op["op"] == "add":
                    m2.add(op["item"], op["idx"])
                if [float(x) for x in m2.sums_with(val)] == obs[0]:
                    model[a] = m2
                    res.probe("failed_op_fully_applied")
                    return
            except Exception:
                pass
            res.violate("invariant-after-failed-op", step=step, op=op, before=before[0], after=obs[0])


class _Invalid:
    """Stands for a run whose (shrunk) plan was not executable; never a violation."""

    def __init__(self, res):
        self.res = res

    def pack(self, **kw):
        d = self.res.pack(**kw)
        d["invalid_plan"] = True
        d["violations"] = []
        return d


# ---------------------------------------------------------------- shrinking

def shrink_candidates(plan, clause):
    ops = plan["ops"]
    n = len(ops)

    def mk(new_ops):
        p = dict(plan)
        p["ops"] = new_ops
        return p
    # cut the tail first (everything after the violating step is irrelevant)
    for cut in (n // 2, n - n // 4, n - 1):
        if 0 < cut < n:
            yield mk(ops[:cut])
    # drop chunks, then single operations
    size = max(1, n // 4)
    while size >= 1:
        for i in range(0, n, size):
            yield mk(ops[:i] + ops[i + size:])
        size //= 2
    # drop a single-source derivation (copy/add-empty/remove) and re-wire its users to the source
    for i, op in enumerate(ops):
        if op["op"] in ("copy", "addempty", "remove"):
            src, out = op["arr"], op["out"]
            rest = []
            for o in ops[i + 1:]:
                o2 = dict(o)
                for key in ("arr", "a", "b"):
                    if o2.get(key) == out:
                        o2[key] = src
                rest.append(o2)
            yield mk(ops[:i] + rest)
    # simplify operations
    for i, op in enumerate(ops):
        if op["op"] in ("addempty", "remove") and op["n"] > 1:
            yield mk(ops[:i] + [dict(op, n=1)] + ops[i + 1:])
        if op["op"] == "new" and op["n"] > 1:
            yield mk(ops[:i] + [dict(op, n=op["n"] - 1)] + ops[i + 1:])
        if op["op"] == "add" and op.get("idx", 0) not in (0,) and not op.get("fault"):
            yield mk(ops[:i] + [dict(op, idx=0)] + ops[i + 1:])


def sample_for_evidence(plan, result):
    return {"run_seed": result["seed"], "manager": plan["manager"], "values": plan["values"],
            "ops": plan["ops"][:25], "ops_total": len(plan["ops"]), "digest": result["digest"]}
