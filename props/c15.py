"""
C15 - calls are pure: inputs untouched, results repeatable, no state across calls.

One run = one history executed in ONE interpreter (a child forked from a zygote that has
imported prtpy but never called it). Every call of the history is also executed alone in
ANOTHER fresh fork (the fresh-state reference). Failed calls are part of the history:
natural refusals, injected valueof failures, simulated clock cut-offs, simulated solver
faults, abandoned generators.
"""
import copy

from dsim import core, refmodels
from dsim.core import Result, Trace, canon, plain, InjectedFault, StepBudgetExceeded
from dsim.isolate import call_in_fork, ChildFailure
from dsim.seams import SimClock, ClockSeam, SimSolver, FaultyValueOf, LogSeam, BinnerOpBudget, AsyncInterrupt, warm_up_solver

ID = "C15"
LEVEL = "exploration"
RUN_WALL_WATCHDOG_S = 600.0
CALL_WALL_WATCHDOG_S = 240.0

TIERS = {
    "quick":    {"runs": 4200, "chunk": 4, "wall_cap_s": 80, "max_ops": 24, "ilp_share": 0.06, "b_max": 25000, "sweep_share": 0.008, "sweep_max": 120,
                 "det_sample_min": 8, "det_sample_frac": 0.01, "max_reports": 3, "shrink_candidates": 120},
    "thorough": {"runs": 80000, "chunk": 8, "wall_cap_s": 1700, "max_ops": 40, "ilp_share": 0.10, "b_max": 400000, "sweep_share": 0.04, "sweep_max": 500,
                 "det_sample_min": 24, "det_sample_frac": 0.003, "max_reports": 4, "shrink_candidates": 300,
                 "fresh_interpreter_check": True, "fresh_sample": 24},
}

RULE = ("One run = one seeded history of 5..max_ops operations in one interpreter over a pool of caller-owned containers (lists, numpy "
        "arrays, dicts, name-lists + valueof; integers or exactly representable fractions) that are REUSED across the calls, with deliberate "
        "collisions (same names / different values, same values / different names, equal lists in distinct objects). Operations: call of any "
        "partitioning / packing / covering algorithm through prtpy.partition / prtpy.pack with any output type, or directly with a caller-owned "
        "bins-manager that is re-used; verbatim repeat of an earlier operation; the caller editing one of its containers, or an object an earlier "
        "call returned, between two calls; failed calls (natural refusals; valueof raising an ordinary error / KeyError / MemoryError / "
        "KeyboardInterrupt anywhere, late, at its last or its first evaluation; the user's interrupt arriving at an arbitrary executed line "
        "of the library (sys.settrace line events); simulated clock cut-off or an interrupt at a clock reading for "
        "complete greedy / CBLDM; simulated solver status, exception, time-out or read-back noise for ILP; CKK generator abandoned, closed or "
        "thrown into after j yields); retries of failed calls with a changed size parameter; 'retry storm' histories. After every operation every "
        "container of the pool (and every option list handed over) is compared with its pristine copy, and the canonicalised outcome (value "
        "incl. types, or exception type) is compared with the outcome of the same operation executed alone in a fresh forked interpreter. "
        "evaluations = operations executed inside histories and compared with a fresh-fork reference. A history is non-trivial when at least one "
        "operation follows a failed call or a caller edit / scribble, or re-uses a container that an earlier call has already been given; "
        "distinct = distinct plans among those.")

ASSUMPTIONS = [
    "fresh state = prtpy imported but never called; third-party libraries (numpy, python-mip, CBC) loaded and warmed up: state they keep is outside prtpy and outside the property",
    "thread-safety and re-entrancy while a generator is suspended are not demanded (the statement says 'made before it'): operations run one after another",
    "for ILP calls the identity of the returned partition is not demanded (the solver may return any optimum): outcomes must agree in kind, and in objective value",
    "exception messages are not compared, only exception types",
    "a difference is reported only when two independent fresh forks agree with each other (reference stable)",
]

COMPONENTS = {
    "real": ["every algorithm in prtpy.partitioning / prtpy.packing / prtpy.covering via prtpy.partition / prtpy.pack", "all output types",
             "both bins-managers", "objectives", "python-mip + CBC (real solves in mode 'real')", "numpy"],
    "simulated": ["clock (SimClock, global and monotone over the whole history; can deliver an interrupt at a reading)", "valueof failures (FaultyValueOf: 4 exception kinds)",
                  "solver verdict / exceptions (SimSolver at mip.Model.optimize) and solution read-back noise (mip.Var.x)", "generator consumer (abandon / close / throw)", "asynchronous interrupt at an arbitrary executed line of the library (AsyncInterrupt: sys.settrace)",
                  "the caller (order of calls, edits of its containers and of returned objects, retries)", "logging level of the prtpy.* loggers (LogSeam)",
                  "process state: one fork per history, one fresh fork per reference call"],
    "stubbed": ["CBC is not run at all in solver mode 'stub_status' / 'raise'"],
}

MEASURES = {"pair": "distinct_ordered_pairs_previous_to_current_operation_kind", "shape": "distinct_history_shapes"}

_clock_seam = ClockSeam()
_solver = SimSolver()
_log = LogSeam()
_opbudget = BinnerOpBudget()

PART_ALGOS = ["greedy", "roundrobin", "multifit", "kk", "cg", "dp", "ilp", "ckk", "snp", "rnp", "cbldm", "balanced"]
PACK_ALGOS = ["ff", "ffd", "bf", "bfd", "bc"]
COVER_ALGOS = ["cover_dec", "twothirds", "threequarters"]
OUTS = ["Partition", "PartitionAndSumsTuple", "PartitionAndSums", "Sums", "LargestSum", "SmallestSum", "ExtremeSums",
        "SortedSums", "Difference", "BinCount"]
ILP_OUTS = ["Partition", "PartitionAndSumsTuple", "PartitionAndSums", "Sums", "SortedSums"]


def prepare_parent():
    warm_up_solver()


# ---------------------------------------------------------------- plan generation

def _gen_pool(r):
    pool = []
    nbase = r.randint(2, 4)
    bases = []
    for _ in range(nbase):
        n = r.randint(1, 8)
        style = r.choice(["small", "small", "narrow", "narrow", "wide", "wide", "zeros", "zeros", "equal", "equal", "frac"])
        if style == "small":
            vals = [r.randint(1, 12) for _ in range(n)]
        elif style == "narrow":
            a = r.choice([10, 50, 100])
            vals = [r.randint(a, 2 * a) for _ in range(n)]
        elif style == "wide":
            vals = [r.randint(1, 300) for _ in range(n)]
        elif style == "frac":
            vals = [r.randint(1, 40) / r.choice([2, 4, 8]) for _ in range(n)]       # exactly representable fractions
        elif style == "zeros":
            vals = [r.choice([0, 0, r.randint(1, 30)]) for _ in range(n)]
            if not any(vals):
                vals[0] = 5
        else:
            vals = [r.choice([3, 7, 20])] * n
        bases.append(vals)
    hints = {}
    if r.random() < 0.45:
        # items that admit a perfect packing into bins of size B (first-fit / best-fit decreasing often miss it,
        # so the exact packers really have to search)
        B = r.choice([10, 12, 20, 30, 50, 100])
        vals = []
        for _ in range(r.randint(2, 4)):
            left = B
            parts = []
            for _ in range(r.randint(1, 3)):
                if left <= 1:
                    break
                x = r.randint(1, max(1, left - 1))
                parts.append(x)
                left -= x
            if left > 0:
                parts.append(left)
            vals += parts
        r.shuffle(vals)
        vals = vals[:13]
        hints[len(bases)] = B
        bases.append(vals)
    cid = 0
    name_sets = [[f"a{j}" for j in range(14)], [f"b{j}" for j in range(14)]]
    for bi, vals in enumerate(bases):
        forms = r.sample(["list", "ndarray", "dict", "names", "list2", "dict_samekeys"], r.randint(1, 3))
        first_new = len(pool)
        for f in forms:
            if f in ("list", "list2"):
                pool.append({"id": cid, "form": "list", "values": list(vals)})          # equal lists in distinct objects
            elif f == "ndarray":
                pool.append({"id": cid, "form": "ndarray", "values": list(vals)})
            elif f == "dict":
                names = r.choice(name_sets)[:len(vals)]
                pool.append({"id": cid, "form": "dict", "names": names, "values": list(vals)})
            elif f == "dict_samekeys":
                # same names as some other dict, other values (collision by name)
                names = name_sets[0][:len(vals)]
                v2 = list(vals)
                r.shuffle(v2)
                pool.append({"id": cid, "form": "dict", "names": names, "values": v2})
            else:
                names = r.choice(name_sets)[:len(vals)]
                pool.append({"id": cid, "form": "names", "names": names, "values": list(vals)})
            cid += 1
        if bi in hints:
            for c in pool[first_new:]:
                c["binsize_hint"] = hints[bi]
    return pool


def _gen_call(r, pool, cfg, p_fault, focus=None):
    c = r.choice(pool)
    fam = r.choices(["part", "pack", "cover", "gen"], weights=[62, 20, 12, 6])[0]
    forced = None
    if focus is not None:
        # swarm: this history keeps coming back to one algorithm and/or one container
        pf = 0.85 if focus.get("storm") else 0.5
        if focus.get("pool") is not None and r.random() < pf:
            c = next(x for x in pool if x["id"] == focus["pool"])
        if focus.get("algo") is not None and r.random() < pf:
            forced = focus["algo"]
            fam = "part" if forced in PART_ALGOS else "pack" if forced in PACK_ALGOS else "cover" if forced in COVER_ALGOS else "gen"
    vals = c["values"]
    n = len(vals)
    op = {"op": "call", "pool": c["id"], "kwargs": {}, "fault": None, "explicit_valueof": r.random() < 0.4}
    if fam == "part":
        algos = [a for a in PART_ALGOS if a != "ilp"]
        algo = "ilp" if r.random() < cfg["ilp_share"] else r.choice(algos)
        if forced:
            algo = forced
        k = r.choices([1, 2, 3, 4, 5], weights=[6, 40, 32, 16, 6])[0]
        if n > 8 and algo not in ("greedy", "roundrobin", "multifit", "kk", "balanced", "cbldm", "cg"):
            algo = r.choice(["greedy", "roundrobin", "multifit", "kk", "balanced", "cbldm", "cg"])     # keep big containers cheap
        if algo == "ilp" and n > 6:
            algo = r.choice(["greedy", "kk", "multifit", "cg"])       # keep the MIP models small: CBC needs 40 s for 8 items x 2 copies x 5 bins
        if algo == "ilp":
            k = min(k, 4)
        if algo in ("snp", "rnp"):
            k = r.choice([2, 3, 3, 4, 5]) if n <= 7 else r.choice([2, 3])
        if algo == "dp":
            k = min(k, 3 if n > 6 else 4)
        if algo == "cbldm":
            k = 2 if r.random() < 0.9 else 3          # numbins != 2 is a natural refusal
            if r.random() < 0.5:
                op["kwargs"]["partition_difference"] = r.choice([1, 1, 2, 3, 0])    # 0 is a natural refusal
        if algo in ("cg", "dp", "ilp"):
            # objective objects are caller-owned and SHARED by all calls of the history that name them
            op["kwargs"]["objective"] = r.choice(["diff", "max", "min"] + (["kmin:2", "kmax:2", "kmin:3", "kmax:3", "kmin:1"] if algo != "cg" or r.random() < 0.25 else []))
        if algo == "cg" and n > 8:
            op["kwargs"]["switches"] = [True, True, False, True]
        elif algo == "cg" and r.random() < 0.4:
            op["kwargs"]["switches"] = [r.random() < 0.6, r.random() < 0.6, r.random() < 0.3, r.random() < 0.6]
        if algo == "ilp":
            # ILP options; an unsatisfiable extra constraint is a natural failed call (ValueError)
            if r.random() < 0.35:
                tot = int(sum(vals))
                op["kwargs"]["constraint"] = {"kind": r.choice(["mineq", "maxle", "minge"]),
                                              "c": r.choice([0, 1, tot // max(k, 1), tot, tot + 1, -1, r.randint(0, max(1, tot))])}
            if r.random() < 0.25:
                op["kwargs"]["copies"] = r.choice([1, 2, 2, 0]) if k <= 3 else r.choice([1, 1, 0])
            elif r.random() < 0.2:
                op["kwargs"]["copies"] = [r.choice([0, 1, 1, 2]) for _ in range(n)]       # a caller-owned list: must come back untouched
            if r.random() < 0.2:
                op["kwargs"]["weights"] = [r.choice([1, 2, 3, 0.5])] * k                  # equal weights (caller-owned list)
        if algo == "multifit" and r.random() < 0.3:
            op["kwargs"]["iterations"] = r.choice([1, 3, 10, 20])
        op.update({"fn": "partition", "algo": algo, "param": k})
        op["out"] = r.choice(ILP_OUTS if algo == "ilp" else OUTS)
    elif fam == "pack":
        algo = forced or r.choice(PACK_ALGOS)
        mx = max(vals) if vals else 1
        imx = int(-(-mx // 1))          # ceil: the container may hold exactly representable fractions
        if r.random() < 0.12:
            binsize = max(1, imx - r.randint(1, max(1, imx // 2))) if mx > 1 else 0.5      # an oversize item: natural refusal
            if binsize >= mx:
                binsize = mx / 2
        elif c.get("binsize_hint") and r.random() < 0.75:
            binsize = c["binsize_hint"]
        else:
            binsize = r.choice([mx, imx + 1, imx + r.randint(0, imx + 3), sum(vals) or 1, 2 * imx + 1])
        op.update({"fn": "pack", "algo": algo, "param": binsize, "out": r.choice(OUTS)})
    elif fam == "cover":
        algo = forced or r.choice(COVER_ALGOS)
        mx = max(vals) if vals else 1
        imx = int(-(-mx // 1))
        binsize = r.choice([max(1, imx // 2), mx, imx + r.randint(1, imx + 2), max(1, int(sum(vals)) // 2), sum(vals) + 1])
        op.update({"fn": "pack", "algo": algo, "param": binsize, "out": r.choice(OUTS)})
    else:
        k = r.choice([2, 2, 3, 4])
        op.update({"fn": "generator", "algo": "ckkgen", "param": k, "out": r.choice(["contents", "sums"])})
        op["fault"] = {"kind": "abandon", "after": r.choice([0, 1, 1, 2, 3]), "how": r.choice(["close", "drop", "throw"])} if r.random() < 0.8 else None
        return op
    # faults
    if r.random() < p_fault:
        kinds = ["valueof", "valueof", "async"]
        if op.get("algo") in ("cg", "cbldm"):
            kinds += ["clock", "clock", "clock"]
        if op.get("algo") == "ilp":
            kinds += ["solver", "solver", "solver"]
        kind = r.choice(kinds)
        if kind == "valueof":
            # where inside the call the value function fails: anywhere / late / at its very last evaluation / at once
            # (a late failure leaves the most work-in-progress behind)
            where = r.choices(["any", "late", "last", "first"], weights=[40, 30, 20, 10])[0]
            frac = {"any": round(r.random(), 4), "late": round(0.9 + 0.0999 * r.random(), 4), "last": 0.99999, "first": 0.0}[where]
            op["fault"] = {"kind": "valueof", "frac": frac,
                           "exc": r.choices(["InjectedFault", "KeyError", "MemoryError", "KeyboardInterrupt"], weights=[45, 15, 10, 30])[0]}
        elif kind == "async":
            # the user's interrupt arrives at an arbitrary executed line of the library (fraction of the lines a
            # fault-free run of this call executes)
            op["fault"] = {"kind": "async", "frac": round(r.random(), 4)}
        elif kind == "clock" and r.random() < 0.35:
            # the user interrupts (SIGINT) the search while it is at its c-th clock reading
            op["fault"] = {"kind": "interrupt", "at": r.choice([1, 1, 2, 3, 5, 8, 13, 21, 40])}
        elif kind == "clock":
            op["fault"] = {"kind": "clock", "cut": r.choice([1, 1, 2, 3, 5, 8, 13, 21, 40])}
        else:
            mode = r.choice(["stub_status", "real_then_status", "raise", "sim_timeout", "noise"])
            f = {"kind": "solver", "mode": mode}
            if mode == "noise":
                # not a failed call: the solver proves optimality and returns the integers only up to its tolerance
                f = {"kind": "solver", "mode": "real", "x_noise": {"seed": r.getrandbits(31), "eps": r.choice([1e-9, 1e-7, 4e-7])}}
                mode = "real"
            if mode in ("stub_status", "real_then_status"):
                f["status"] = r.choice(["FEASIBLE", "NO_SOLUTION_FOUND", "ERROR", "INFEASIBLE", "UNBOUNDED", "INT_INFEASIBLE", "CUTOFF", "LOADED", "OTHER", "INF_OR_UNBD", "TRUNCATED"])
            elif mode == "raise":
                f["exc"] = r.choice(["InterfacingError", "MemoryError", "InjectedFault", "KeyboardInterrupt"])
            elif mode == "sim_timeout":
                f["sim_duration"] = 10.0
                f["late"] = r.choice(["FEASIBLE", "NO_SOLUTION_FOUND"])
                op["kwargs"]["time_limit"] = r.choice([1, 5, 20])
            op["fault"] = f
    return op


def _gen_edit(r, pool, focus=None):
    """The caller changes one of its own containers between two calls."""
    c = r.choice(pool)
    if focus and focus.get("storm") and focus.get("pool") is not None and r.random() < 0.8:
        c = next(x for x in pool if x["id"] == focus["pool"])
    kind = r.choice(["set", "set", "set", "append", "pop"])
    e = {"op": "edit", "pool": c["id"], "kind": kind, "pos": r.randrange(16), "value": r.choice([0, 1, 5, 17, 40, 123, 300])}
    return e


def _direct(r, op, p_direct):
    """Variant: the caller calls the algorithm function itself, with a bins-manager object that it owns and
    RE-USES for every direct call on that container (README: 'Adding new algorithms' / the algorithm docstrings)."""
    if op.get("fn") in ("partition", "pack") and op.get("algo") != "ilp" and r.random() < p_direct:
        op["direct"] = r.choice(["contents", "sums"])
        op.pop("out", None)
        op["out"] = "raw"
    return op


def _gen_retry(r, pool, failed):
    """The caller reacts to a failed call the way callers do: the same call again without the fault, often with the
    size parameter changed (other bin size / other number of bins)."""
    op = copy.deepcopy(failed)
    op["fault"] = None
    if op.get("fn") == "generator":
        return op
    if r.random() < 0.6:
        c = next(x for x in pool if x["id"] == op["pool"])
        vals = c["values"]
        mx = max(vals) if vals else 1
        if op["fn"] == "pack":
            imx = int(-(-mx // 1))
            cands = [mx, imx + 1, imx + 2, imx + imx // 2 + 1, 2 * imx, 2 * imx + 1, sum(vals) or 1] + ([c["binsize_hint"]] if c.get("binsize_hint") else [])
            cands = [b for b in cands if b != op["param"]]
            op["param"] = r.choice(cands)
        elif op.get("algo") not in ("cbldm",):
            op["param"] = min(4 if op.get("algo") == "ilp" else 5, max(1, op["param"] + r.choice([-1, 1, 1])))
    return op


def _gen_scribble(r, ops):
    """The caller changes, in place, an object that an earlier call RETURNED to it (it owns that object)."""
    cands = [i for i, o in enumerate(ops) if o["op"] == "call" and o.get("fn") != "generator"]
    if not cands:
        return None
    return {"op": "scribble", "of": r.choice(cands[-6:]), "how": r.choice(["append", "clear", "overwrite", "reverse"])}


SWEEP_ALGOS = ["bc", "bc", "snp", "rnp", "ckk", "kk", "dp", "cg", "multifit", "ffd", "bfd", "ff", "bf", "twothirds", "threequarters", "cover_dec", "greedy"]


def _gen_sweep(r, pool, cfg):
    """An INTERRUPT SWEEP: call A; the same algorithm on the same container with another size parameter, interrupted at
    EVERY executed line in turn (one fresh interpreter per interruption point); then that second call again, undisturbed,
    compared with a fresh interpreter. The analogue for C15 of C11's sweep over all clock readings: a window of a single
    line between two statements (a marker set before the table it describes is cleared, say) cannot be hit by sampling."""
    c = r.choice(pool)
    focus = {"algo": r.choice(SWEEP_ALGOS), "pool": c["id"], "storm": True}
    a = None
    for _ in range(20):
        a = _gen_call(r, pool, cfg, 0.0, focus)
        if a.get("algo") == focus["algo"] and a["pool"] == c["id"]:
            break
    a["fault"] = None
    b = _gen_retry(r, pool, dict(a, fault={"kind": "async"}))
    b["fault"] = {"kind": "async", "at": "sweep"}
    cc = copy.deepcopy(b)
    cc["fault"] = None
    return [a, b, cc]


def gen_plan(seed, tier):
    cfg = TIERS[tier]
    r = core.rng(seed, "c15-swarm")
    pool = _gen_pool(r)
    if r.random() < cfg.get("sweep_share", 0.0):
        ops = _gen_sweep(r, pool, cfg)
        used = {ops[0]["pool"]}
        return {"prop": "C15", "pool": [c for c in pool if c["id"] in used], "ops": ops, "log": None, "b_max": cfg["b_max"],
                "sweep": True, "sweep_max": cfg["sweep_max"]}
    nops = r.randint(5, cfg["max_ops"])
    p_fault = r.choice([0.0, 0.1, 0.25, 0.4])
    p_repeat = r.choice([0.05, 0.15, 0.3])
    ops = []
    focus = None
    if r.random() < 0.6:
        focus = {"algo": r.choice(PART_ALGOS + PACK_ALGOS + COVER_ALGOS + ["ckkgen"]) if r.random() < 0.75 else None,
                 "pool": r.choice(pool)["id"] if r.random() < 0.6 else None}
        if focus["algo"] == "ilp" and r.random() < 0.7:
            focus["algo"] = r.choice(["cg", "dp", "snp", "rnp", "ckk", "cbldm"])
    p_edit = r.choice([0.0, 0.0, 0.08, 0.2])
    p_scribble = r.choice([0.0, 0.0, 0.1, 0.25])
    p_direct = r.choice([0.0, 0.0, 0.3, 0.7])
    p_retry = r.choice([0.0, 0.3, 0.6])
    if r.random() < 0.25:
        # swarm mode "retry storm": one algorithm on one container, failing often (and late), the caller retrying with
        # varied size parameters - the pattern that exposes work-in-progress state a failed call leaves behind
        focus = {"algo": r.choice([a for a in PART_ALGOS if a != "ilp"] + PACK_ALGOS + PACK_ALGOS + COVER_ALGOS), "pool": r.choice(pool)["id"], "storm": True}
        p_fault, p_retry, p_repeat = 0.5, 0.9, 0.1
    elif r.random() < 0.2:
        # swarm mode "edit storm": one search-based algorithm on one NAMED container (dict / names+valueof) whose values
        # the caller keeps editing in place between the calls - exposes anything remembered per object, per name or per
        # value function (bound methods of the same dict compare equal)
        named = [c for c in pool if c["form"] in ("dict", "names")]
        if named:
            focus = {"algo": r.choice(["snp", "rnp", "ckk", "kk", "dp", "cg", "multifit", "greedy", "bc", "ffd", "bfd", "twothirds"]),
                     "pool": r.choice(named)["id"], "storm": True}
            p_edit, p_fault, p_repeat = 0.4, 0.05, 0.2
    for i in range(nops):
        if ops and ops[-1]["op"] == "call" and ops[-1].get("fault") and ops[-1]["fault"]["kind"] != "abandon" and r.random() < p_retry:
            ops.append(_gen_retry(r, pool, ops[-1]))
            continue
        if ops and r.random() < p_edit:
            ops.append(_gen_edit(r, pool, focus))
            continue
        if ops and r.random() < p_scribble:
            sc = _gen_scribble(r, ops)
            if sc is not None:
                ops.append(sc)
                continue
        if ops and r.random() < p_repeat:
            j = r.randrange(len(ops))
            while ops[j]["op"] == "repeat":
                j = ops[j]["of"]
            if ops[j]["op"] in ("edit", "scribble"):
                ops.append(_direct(r, _gen_call(r, pool, cfg, p_fault, focus), p_direct))
            else:
                ops.append({"op": "repeat", "of": j})
        else:
            ops.append(_direct(r, _gen_call(r, pool, cfg, p_fault, focus), p_direct))
    log = r.choice([None, None, None, None, None, "INFO", "DEBUG"])       # deployment configuration, the same for history and references
    return {"prop": "C15", "pool": pool, "ops": ops, "log": log, "b_max": cfg["b_max"]}


# ---------------------------------------------------------------- code that runs inside history / reference children

class _Env:
    """The caller's world inside one interpreter: containers, seams, a global monotone clock."""

    def __init__(self, plan):
        import numpy as np
        import warnings
        warnings.simplefilter("ignore")
        self.plan = plan
        _clock_seam.install()
        _solver.install()
        _log.configure(plan.get("log"))
        _opbudget.install()
        self._algo("greedy")          # every module of the registry is imported now, not inside a (traced) call
        self.clock = SimClock({"kind": "uniform", "t0": 0.0, "tick": 1.0}, max_reads=400000)
        _clock_seam.use(self.clock)
        self.pool = {}
        self.vmaps = {}
        for c in plan["pool"]:
            if c["form"] == "list":
                obj = list(c["values"])
            elif c["form"] == "ndarray":
                obj = np.array(c["values"], dtype=np.int64 if all(isinstance(v, int) for v in c["values"]) else np.float64)
            elif c["form"] == "dict":
                obj = dict(zip(c["names"], c["values"]))
            else:
                obj = list(c["names"])
                self.vmaps[c["id"]] = dict(zip(c["names"], c["values"]))
            self.pool[c["id"]] = obj
        self.pristine = {cid: core.jdump(canon(o)) for cid, o in self.pool.items()}
        self.pristine_vmaps = {cid: core.jdump(canon(o)) for cid, o in self.vmaps.items()}
        self.forms = {c["id"]: c["form"] for c in plan["pool"]}

    def mutated(self):
        bad = [cid for cid, o in self.pool.items() if core.jdump(canon(o)) != self.pristine[cid]]
        bad += [cid for cid, o in self.vmaps.items() if core.jdump(canon(o)) != self.pristine_vmaps[cid]]
        return sorted(set(bad))

    # -- registries
    def _algo(self, name):
        import prtpy
        prt, pk, cv = prtpy.partitioning, prtpy.packing, prtpy.covering
        from prtpy.packing import best_fit
        from prtpy.partitioning import balanced
        return {"greedy": prt.greedy, "roundrobin": prt.roundrobin, "multifit": prt.multifit, "kk": prt.kk, "cg": prt.complete_greedy,
                "dp": prt.dp, "ilp": prt.ilp, "ckk": prt.ckk, "snp": prt.snp, "rnp": prt.rnp, "cbldm": prt.cbldm,
                "balanced": balanced.bidirectional_balanced,
                "ff": pk.first_fit, "ffd": pk.first_fit_decreasing, "bf": best_fit.online, "bfd": best_fit.decreasing, "bc": pk.bin_completion,
                "cover_dec": cv.decreasing, "twothirds": cv.twothirds, "threequarters": cv.threequarters}[name]

    def _objective(self, name):
        """Objective objects are caller-owned: one object per name for the whole history (interpreter)."""
        from prtpy import objectives as obj
        if not hasattr(self, "_objs"):
            self._objs = {}
        if name not in self._objs:
            if name.startswith("kmin:"):
                self._objs[name] = obj.MaximizeKSmallestSums(int(name[5:]))
            elif name.startswith("kmax:"):
                self._objs[name] = obj.MinimizeKLargestSums(int(name[5:]))
            else:
                self._objs[name] = {"diff": obj.MinimizeDifference, "max": obj.MinimizeLargestSum, "min": obj.MaximizeSmallestSum}[name]
        return self._objs[name]

    def apply_edit(self, e):
        """The caller changes its own container between two calls (never during one)."""
        import numpy as np
        cid = e["pool"]
        obj = self.pool[cid]
        form = self.forms[cid]
        kind, pos, value = e["kind"], e["pos"], e["value"]
        if form == "list":
            if kind == "append":
                obj.append(value)
            elif kind == "pop" and len(obj) > 1:
                obj.pop(pos % len(obj))
            elif len(obj) > 0:
                obj[pos % len(obj)] = value
        elif form == "ndarray":
            if len(obj) > 0:
                obj[pos % len(obj)] = value
        elif form == "dict":
            keys = list(obj.keys())
            if kind == "append":
                obj["z%d" % pos] = value
            elif kind == "pop" and len(keys) > 1:
                del obj[keys[pos % len(keys)]]
            elif keys:
                obj[keys[pos % len(keys)]] = value
        else:
            vm = self.vmaps[cid]
            if kind == "append":
                nm = "z%d" % pos
                if nm not in vm:
                    obj.append(nm)
                vm[nm] = value
            elif kind == "pop" and len(obj) > 1:
                obj.pop(pos % len(obj))
            elif obj:
                vm[obj[pos % len(obj)]] = value
        self.pristine[cid] = core.jdump(canon(self.pool[cid]))
        if cid in self.vmaps:
            self.pristine_vmaps[cid] = core.jdump(canon(self.vmaps[cid]))
        if not hasattr(self, "edits"):
            self.edits = {}
        self.edits[cid] = self.edits.get(cid, 0) + 1

    def _owned_binner(self, cid, kind, valueof, faulty):
        """The caller's own bins-manager for direct calls on container cid: created once and re-used for every later
        direct call on that container, as long as the caller has not edited the container (after an edit the caller
        builds a new manager: one that memoises values per instance would otherwise be blamed for the caller's edit).
        A call that is given a failing value function gets a manager of its own for the same reason."""
        import prtpy
        cls = prtpy.BinnerKeepingContents if kind == "contents" else prtpy.BinnerKeepingSums
        if faulty:
            return cls(valueof)
        if not hasattr(self, "_binners"):
            self._binners, self._vo = {}, {}
        self._vo[cid] = valueof
        key = (cid, kind, getattr(self, "edits", {}).get(cid, 0))
        if key not in self._binners:
            vo = self._vo
            self._binners[key] = cls(lambda item, _cid=cid: vo[_cid](item))
        return self._binners[key]

    def apply_scribble(self, e):
        """The caller changes, in place, the object an earlier call returned. -> names of input containers that changed
        with it (only possible if the library handed back an alias of the caller's own container)."""
        target = getattr(self, "results", {}).get(e["of"])
        if target is not None:
            _scribble(target, e["how"])
        return self.mutated()

    def perform(self, op, k_valueof=None, measure=False, idx=None):
        """Execute one call. -> record dict with canonical outcome."""
        import prtpy
        from prtpy import outputtypes as out
        cid = op["pool"]
        items = self.pool[cid]
        form = self.forms[cid]
        fault = op.get("fault") or {}
        rec = {"fault_fired": None}
        owned_kw = []          # (name, the list object handed to the call, pristine copy)
        valueof = None
        fv = None
        if form == "names":
            fv = FaultyValueOf(self.vmaps[cid], max_calls=2000000)
            valueof = fv
        if fault.get("kind") == "valueof":
            mapping = self.vmaps[cid] if form == "names" else (items if form == "dict" else None)
            fv = FaultyValueOf(mapping, fail_at=None if measure else k_valueof, max_calls=2000000, exc=fault.get("exc", "InjectedFault"))
            valueof = fv
        elif fv is None and op.get("explicit_valueof"):
            # count valueof invocations (deterministic step watchdog) without changing behaviour
            mapping = items if form == "dict" else None
            fv = FaultyValueOf(mapping, max_calls=2000000)
            valueof = fv
        reads0 = self.clock.reads
        _solver.use({"mode": "real"})
        _opbudget.start(self.plan.get("b_max", 250000))
        tracer = None
        if fault.get("kind") == "async":
            import os
            import prtpy as _p
            tracer = AsyncInterrupt(os.path.dirname(os.path.abspath(_p.__file__)), fire_at=None if measure else k_valueof)
        # everything the CALLER does to prepare the call happens before the (possibly traced) call itself: looking up the
        # algorithm, creating or fetching its own objective object and bins-manager, building the option values
        kw = {}
        okw = op.get("kwargs", {})
        algo = otype = owned = names = None
        if op["fn"] != "generator":
            if "objective" in okw:
                kw["objective"] = self._objective(okw["objective"])
            if "switches" in okw:
                lb, flb, h3, seen = okw["switches"]
                kw.update(use_lower_bound=lb, use_fast_lower_bound=flb, use_heuristic_3=h3, use_set_of_seen_states=seen)
            for key in ("partition_difference", "iterations", "time_limit", "copies", "weights"):
                if key in okw:
                    kw[key] = list(okw[key]) if isinstance(okw[key], list) else okw[key]
                    if isinstance(okw[key], list):
                        owned_kw.append((key, kw[key], list(okw[key])))
            if "constraint" in okw:
                con = okw["constraint"]
                kw["additional_constraints"] = {
                    "mineq": (lambda sums, c=con["c"]: [sums[0] == c]),
                    "maxle": (lambda sums, c=con["c"]: [sums[-1] <= c]),
                    "minge": (lambda sums, c=con["c"]: [sums[0] >= c])}[con["kind"]]
            if fault.get("kind") == "clock":
                kw["time_limit"] = fault["cut"] - 0.5
            algo = self._algo(op["algo"])
            if op.get("direct"):
                if isinstance(items, dict):
                    names, vo = items.keys(), (valueof if valueof is not None else items.__getitem__)
                else:
                    names, vo = items, (valueof if valueof is not None else (lambda item: item))
                owned = self._owned_binner(cid, op["direct"], vo, fault.get("kind") == "valueof")
            else:
                otype = getattr(out, op["out"])
        try:
          with (tracer if tracer is not None else _NoTrace()):
            if op["fn"] == "generator":
                outcome = self._generator(op, items, valueof)
            else:
                if fault.get("kind") == "interrupt":
                    self.clock.interrupt_at = self.clock.reads + fault["at"] - 1
                if fault.get("kind") == "solver":
                    _solver.use({k: v for k, v in fault.items() if k != "kind"})
                if op.get("direct"):
                    val = algo(owned, op["param"], names, **kw)
                elif op["fn"] == "partition":
                    val = prtpy.partition(algorithm=algo, numbins=op["param"], items=items, valueof=valueof, outputtype=otype, **kw)
                else:
                    val = prtpy.pack(algorithm=algo, binsize=op["param"], items=items, valueof=valueof, outputtype=otype, **kw)
                outcome = {"value": canon(val)}
                if idx is not None:
                    if not hasattr(self, "results"):
                        self.results = {}
                    self.results[idx] = val
                if op["algo"] == "ilp":
                    outcome["ilp_signature"] = self._ilp_signature(op, val, cid)
        except StepBudgetExceeded:
            raise
        except (Exception, KeyboardInterrupt) as e:
            outcome = {"exception": type(e).__name__}
        finally:
            _solver.use({"mode": "real"})
            rec["interrupt_fired"] = self.clock.interrupts_fired
            self.clock.interrupts_fired = 0
            self.clock.interrupt_at = None
        rec["outcome"] = outcome
        rec["kwargs_mutated"] = [name for (name, obj, pristine) in owned_kw if obj != pristine or len(obj) != len(pristine)]
        rec["valueof_calls"] = fv.calls if fv is not None else None
        rec["valueof_fired"] = fv.fired if fv is not None else 0
        rec["clock_reads"] = self.clock.reads - reads0
        rec["binner_ops"] = _opbudget.ops
        rec["line_events"] = tracer.count if tracer is not None else None
        rec["async_fired"] = tracer.fired if tracer is not None else 0
        rec["solver_fired"] = dict(_solver.fired)
        _solver.fired = {}
        return rec

    def _generator(self, op, items, valueof):
        import prtpy
        from prtpy.partitioning import complete_karmarkar_karp_sy as ckk
        cls = prtpy.BinnerKeepingContents if op["out"] == "contents" else prtpy.BinnerKeepingSums
        if isinstance(items, dict):
            binner = cls(valueof if valueof is not None else items.__getitem__)
            names = items.keys()
        else:
            binner = cls(valueof) if valueof is not None else cls()
            names = items
        g = ckk.generator(binner, op["param"], names)
        fault = op.get("fault")
        got = []
        if fault is None:
            for y in g:
                got.append(canon(y))
                if len(got) > 2000:
                    break
        else:
            for _ in range(fault["after"]):
                try:
                    got.append(canon(next(g)))
                except StopIteration:
                    break
            if fault["how"] == "close":
                g.close()
            elif fault["how"] == "throw":
                try:
                    g.throw(KeyboardInterrupt("simulated interrupt while the generator is suspended"))
                except (KeyboardInterrupt, StopIteration):
                    pass
            else:
                del g
        return {"value": got}

    def _ilp_signature(self, op, val, cid):
        """What must be equal between two ILP solves of the same model: the objective value."""
        form = self.forms[cid]
        vm = self.vmaps.get(cid) or (self.pool[cid] if form == "dict" else None)
        v = (lambda x: x) if vm is None else vm.__getitem__
        o = op["out"]
        if o == "Partition":
            sums = [sum(v(plain(i)) for i in b) for b in val]
        elif o == "PartitionAndSumsTuple":
            sums = [sum(v(plain(i)) for i in b) for b in val[1]]
        elif o == "PartitionAndSums":
            sums = [sum(v(plain(i)) for i in b) for b in val.lists]
        else:
            sums = [float(x) for x in plain(val)]
        objective = op.get("kwargs", {}).get("objective", "diff")
        return {"objective_value": canon(refmodels.objective_value(objective, sums)), "nbins": len(sums), "total": canon(sum(sums))}


class _NoTrace:
    def __enter__(self):
        return self

    def __exit__(self, *exc):
        return False


def _scribble(obj, how, depth=0):
    """In-place change of a returned object, the way a caller post-processes a result."""
    import numpy as np
    JUNK = -777
    if depth > 3:
        return
    if isinstance(obj, np.ndarray):
        if obj.size and obj.flags.writeable:
            if how == "reverse":
                obj[...] = obj[::-1].copy()
            else:
                obj.flat[0] = JUNK
        return
    if isinstance(obj, tuple):
        for x in obj:
            _scribble(x, how, depth + 1)
        return
    if hasattr(obj, "sums") and hasattr(obj, "lists"):
        _scribble(obj.sums, how, depth + 1)
        _scribble(obj.lists, how, depth + 1)
        return
    if isinstance(obj, list):
        nested = [x for x in obj if isinstance(x, (list, np.ndarray))]
        if nested:
            if how == "reverse":
                obj.reverse()
            elif how == "append":
                tgt = nested[0]
                if isinstance(tgt, list):
                    tgt.append(JUNK)
            elif how == "clear":
                tgt = nested[-1]
                if isinstance(tgt, list):
                    tgt.clear()
            else:
                for x in nested:
                    _scribble(x, "overwrite", depth + 1)
        else:
            if how == "reverse":
                obj.reverse()
            elif how == "append":
                obj.append(JUNK)
            elif how == "clear":
                obj.clear()
            elif obj:
                obj[0] = JUNK


def _resolve(plan, idx):
    op = plan["ops"][idx]
    hops = 0
    while op["op"] == "repeat":
        op = plan["ops"][op["of"]]
        hops += 1
        if hops > len(plan["ops"]):
            raise ValueError("repeat cycle")
    return op


def _child_run(plan, indices, kmap, measure):
    """Runs in a forked child: execute the given operation indices one after another in THIS interpreter."""
    env = _Env(plan)
    out = []
    applied = 0          # edits with index < applied have been applied
    for idx in indices:
        for e_i in range(applied, idx):
            if plan["ops"][e_i]["op"] == "edit":
                env.apply_edit(plan["ops"][e_i])
        applied = max(applied, idx)
        if plan["ops"][idx]["op"] == "edit":
            env.apply_edit(plan["ops"][idx])
            applied = idx + 1
            out.append({"index": idx, "edit": True, "mutated": []})
            continue
        if plan["ops"][idx]["op"] == "scribble":
            aliased = env.apply_scribble(plan["ops"][idx])
            out.append({"index": idx, "scribble": True, "mutated": [], "aliased_input": aliased})
            if aliased:
                break          # the returned object WAS the caller's container: the caller has now edited its own input
            continue
        op = _resolve(plan, idx)
        rec = env.perform(op, kmap.get(str(idx)), measure=measure, idx=idx)
        rec["index"] = idx
        rec["mutated"] = env.mutated() + ["kwarg:" + nm for nm in rec.get("kwargs_mutated", [])]
        out.append(rec)
        if rec["mutated"]:
            break
    return out


# ---------------------------------------------------------------- orchestration (never calls prtpy itself)

def _comparable(op, outcome):
    """The part of an outcome that must be equal between history and fresh state."""
    if "exception" in outcome:
        return {"exception": outcome["exception"]}
    if op.get("algo") == "ilp":
        return {"ilp": outcome["ilp_signature"]}
    return {"value": outcome["value"]}


def _opkind(op):
    if op["op"] in ("edit", "scribble"):
        return op["op"]
    f = op.get("fault")
    return op.get("algo", "?") + ("^" if op.get("direct") else "") + ("!" + f["kind"] if f else "")


def _valid_plan(plan):
    ids = {c["id"] for c in plan["pool"]}
    if plan.get("sweep"):
        ops = plan["ops"]
        if len(ops) != 3 or any(o["op"] != "call" or o["pool"] not in ids for o in ops) or (ops[1].get("fault") or {}).get("kind") != "async":
            return False
    for i, op in enumerate(plan["ops"]):
        if op["op"] == "repeat":
            if not (0 <= op["of"] < i) or plan["ops"][op["of"]]["op"] in ("edit", "scribble"):
                return False
        elif op["op"] == "scribble":
            if not (0 <= op["of"] < i) or plan["ops"][op["of"]]["op"] in ("edit", "scribble"):
                return False
        elif op["pool"] not in ids:
            return False
    return bool(plan["ops"])


class _Invalid:
    def __init__(self, res):
        self.res = res

    def pack(self, **kw):
        d = self.res.pack(**kw)
        d["invalid_plan"] = True
        d["violations"] = []
        return d


def execute(plan, seed=0):
    res = Result(seed, plan)
    tr = Trace()
    res.instance_key = "%016x" % core.H("c15", plan)
    if not _valid_plan(plan):
        res.finish(tr)
        return _Invalid(res)
    ops = plan["ops"]
    n = len(ops)
    tr.add("plan", nops=n, pool=[(c["id"], c["form"], len(c["values"])) for c in plan["pool"]])
    if plan.get("sweep"):
        return _execute_sweep(plan, res, tr)

    # 1. injected valueof failures are placed inside the count a fault-free run makes (measured in a fresh fork,
    #    with the containers in the state they have at that point of the history)
    kmap = {}
    refs = {}
    base_idx = {}            # op index -> index of the underlying call (repeat resolved)
    epoch = {}               # op index -> number of caller edits before it
    ne = 0
    for i in range(n):
        epoch[i] = ne
        if ops[i]["op"] == "edit":
            ne += 1
            continue
        if ops[i]["op"] == "scribble":
            continue
        j = i
        while ops[j]["op"] == "repeat":
            j = ops[j]["of"]
        base_idx[i] = j
    measured = {}
    for i in sorted(base_idx):
        j = base_idx[i]
        f = ops[j].get("fault") or {}
        if f.get("kind") not in ("valueof", "async"):
            continue
        key = (j, epoch[i])
        if key not in measured:
            try:
                m = call_in_fork(_child_run, (plan, [i], {}, True), timeout=CALL_WALL_WATCHDOG_S)[-1]
            except ChildFailure as e:
                if "StepBudgetExceeded" in str(e):
                    res.discarded = "over_step_budget"
                    tr.add("discard", why="step budget in measuring run", op=i)
                    return res.finish(tr)
                raise
            K = (m["valueof_calls"] if f["kind"] == "valueof" else m.get("line_events")) or 0
            measured[key] = (1 + int(f["frac"] * K)) if K > 0 else 1
            if K == 0:
                res.probe("valueof_fault_on_call_that_never_evaluates" if f["kind"] == "valueof" else "async_interrupt_on_call_that_executes_no_library_line")
        kmap[str(i)] = measured[key]

    # 2. the history, in one interpreter
    try:
        hist = call_in_fork(_child_run, (plan, list(range(n)), kmap, False), timeout=RUN_WALL_WATCHDOG_S)
    except ChildFailure as e:
        if "StepBudgetExceeded" in str(e):
            res.discarded = "over_step_budget"
            tr.add("discard", why="step budget in history")
            return res.finish(tr)
        raise

    # 3. fresh-state reference for each distinct underlying call (one fork per call)
    class _OverBudget(Exception):
        pass

    def reference(i):
        # the same operation alone in a fresh interpreter (caller edits that precede it are replayed first)
        try:
            return call_in_fork(_child_run, (plan, [i], kmap, False), timeout=CALL_WALL_WATCHDOG_S)[-1]
        except ChildFailure as e:
            if "StepBudgetExceeded" in str(e):
                raise _OverBudget()
            raise

    prev_kind = None
    used = set()
    failed_before = False
    nontrivial = False
    shape = []
    for rec in hist:
        i = rec["index"]
        if rec.get("edit"):
            tr.add("edit", i=i, op=ops[i])
            res.probe("caller_edited_container_between_calls")
            nontrivial = True
            if prev_kind is not None:
                res.cells.append("@pair:" + prev_kind + ">edit")
            prev_kind = "edit"
            prev_failed = False
            prev_algo, prev_pool, prev_form = None, ops[i]["pool"], _form(plan, ops[i]["pool"])
            shape.append("edit")
            continue
        if rec.get("scribble"):
            tr.add("scribble", i=i, op=ops[i], aliased_input=rec["aliased_input"])
            res.probe("caller_changed_a_returned_object_in_place")
            if rec["aliased_input"]:
                res.probe("returned_object_aliases_callers_input_history_stops")
                break
            if prev_kind is not None:
                res.cells.append("@pair:" + prev_kind + ">scribble")
            prev_kind = "scribble"
            prev_failed = False
            prev_algo, prev_pool, prev_form = None, None, None
            shape.append("scribble")
            nontrivial = True
            continue
        op = _resolve(plan, i)
        j = base_idx[i]
        if op.get("direct"):
            res.probe("direct_call_with_caller_owned_reused_binner")
        if any(isinstance(v, list) for k_, v in op.get("kwargs", {}).items() if k_ in ("copies", "weights")):
            res.probe("call_with_caller_owned_list_option")
        res.evaluations += 1
        kind = _opkind(op)
        shape.append(kind if ops[i]["op"] != "repeat" else "repeat")
        if prev_kind is not None:
            res.cells.append("@pair:" + prev_kind + ">" + kind)
        if failed_before or op["pool"] in used:
            nontrivial = True
        # which faults actually fired
        f = op.get("fault") or {}
        if rec["valueof_fired"]:
            res.fault("valueof_raised_" + f.get("exc", "InjectedFault"))
        if rec.get("interrupt_fired"):
            res.fault("interrupt_at_clock_reading")
        if rec.get("async_fired"):
            res.fault("interrupt_at_arbitrary_executed_line")
        if f.get("kind") == "clock" and "exception" in rec["outcome"]:
            res.fault("clock_cut_before_first_solution")
        elif f.get("kind") == "clock":
            res.fault("clock_cut_configured_call_returned")
        for k_, v_ in rec["solver_fired"].items():
            res.fault(k_, v_)
        if f.get("kind") == "abandon":
            res.fault("generator_abandoned_" + f["how"])
        if "exception" in rec["outcome"]:
            if not f:
                res.fault("natural_refusal_or_crash:" + rec["outcome"]["exception"])
        # oracle 1: inputs untouched
        if rec["mutated"]:
            res.violate("input-mutated", step=i, op=op, containers=rec["mutated"])
            tr.add("op", i=i, op=ops[i], outcome=rec["outcome"], mutated=rec["mutated"])
            break
        # oracle 2: same as in a fresh interpreter
        rkey = (j, epoch[i])
        try:
            if rkey not in refs:
                refs[rkey] = reference(i)
        except _OverBudget:
            res.discarded = "over_step_budget"
            tr.add("discard", why="step budget in reference run", op=i)
            return res.finish(tr)
        ref = refs[rkey]
        mine, fresh = _comparable(op, rec["outcome"]), _comparable(op, ref["outcome"])
        verdict = "same"
        async_op = f.get("kind") == "async"
        if async_op:
            # WHERE an interrupt at the n-th executed line lands depends on how many lines the call executes, and a
            # correct cache that is warm in the history and cold in a fresh interpreter changes that number: the
            # interrupted call itself is a disturbance, not a judged operation. Its inputs must be untouched (above) and
            # every LATER call is judged as usual.
            verdict = "not-compared"
            if mine != fresh:
                res.probe("async_interrupt_landed_elsewhere_than_in_fresh_state")
        elif mine != fresh:
            try:
                ref2 = reference(i)
            except _OverBudget:
                ref2 = {"outcome": {"exception": "StepBudgetExceeded-in-second-reference"}}
            if _comparable(op, ref2["outcome"]) != fresh:
                res.note("unstable_reference")
                verdict = "reference-unstable"
            else:
                verdict = "differs"
                res.violate("differs-from-fresh", step=i, op=op, in_history=_short(mine), fresh=_short(fresh),
                            previous=[_opkind(ops[x] if ops[x]["op"] in ("edit", "scribble") else _resolve(plan, x)) for x in range(max(0, i - 3), i)])
        elif op.get("algo") == "ilp" and "value" in rec["outcome"] and rec["outcome"]["value"] != ref["outcome"].get("value"):
            res.note("solver_alternative_optimum")
        # oracle 3: repeat equals the original
        if ops[i]["op"] == "repeat":
            first = next((h for h in hist if h["index"] == j), None)
            res.probe("repeat")
            if i - j >= 10:
                res.probe("repeat_after_ge10_intervening_calls")
            if epoch[i] != epoch[j]:
                res.probe("repeat_after_caller_edit_not_compared_with_original")
            elif async_op:
                pass
            elif first is not None and _comparable(op, first["outcome"]) != mine:
                res.violate("repeat-differs", step=i, of=j, op=op, first=_short(_comparable(op, first["outcome"])), again=_short(mine))
        # probes
        if prev_kind not in (None, "edit", "scribble") and prev_failed and "exception" not in rec["outcome"] and prev_algo == op.get("algo") and prev_pool == op["pool"]:
            res.probe("failed_call_then_same_algorithm_succeeds_on_same_container")
        if prev_kind not in (None, "edit", "scribble") and prev_form == "dict" and _form(plan, op["pool"]) == "dict" and prev_pool != op["pool"] and _names(plan, prev_pool) == _names(plan, op["pool"]):
            res.probe("two_dicts_with_identical_keys_back_to_back")
        tr.add("op", i=i, op=ops[i], outcome=rec["outcome"], verdict=verdict, valueof_calls=rec["valueof_calls"], clock_reads=rec["clock_reads"])
        bo = rec.get("binner_ops", 0)
        res.probe("call_binner_ops_le_1e3" if bo <= 1000 else "call_binner_ops_le_1e4" if bo <= 10000 else "call_binner_ops_le_1e5" if bo <= 100000 else "call_binner_ops_gt_1e5")
        res.sim_seconds += rec["clock_reads"]
        prev_kind = kind
        prev_failed = "exception" in rec["outcome"]
        prev_algo, prev_pool, prev_form = op.get("algo"), op["pool"], _form(plan, op["pool"])
        failed_before = failed_before or prev_failed
        used.add(op["pool"])
        if res.violations:
            break
    res.nontrivial = 1 if nontrivial else 0
    res.cells.append("@shape:%016x" % core.H(shape))
    for c in plan["pool"]:
        res.cells.append("container:" + c["form"])
    if plan.get("log"):
        res.probe("history_with_logging_enabled_" + plan["log"])
    return res.finish(tr)


def _execute_sweep(plan, res, tr):
    ops = plan["ops"]

    def fork(indices, kmap, measure=False):
        try:
            return call_in_fork(_child_run, (plan, indices, kmap, measure), timeout=CALL_WALL_WATCHDOG_S)
        except ChildFailure as e:
            if "StepBudgetExceeded" in str(e):
                return None
            raise
    res.probe("interrupt_sweep_runs")
    ref = fork([2], {})
    m = fork([1], {}, measure=True)
    if ref is None or m is None:
        res.discarded = "over_step_budget"
        tr.add("discard", why="step budget in the sweep's reference or measuring run")
        return res.finish(tr)
    fresh = _comparable(ops[2], ref[-1]["outcome"])
    K = m[-1].get("line_events") or 0
    tr.add("sweep", lines=K, fresh=_short(fresh), a=ops[0], b=ops[1])
    if K == 0:
        res.probe("async_interrupt_on_call_that_executes_no_library_line")
        return res.finish(tr)
    smax = plan.get("sweep_max", 160)
    if K > 20000:
        # a deterministic bound on the cost of one run: long calls are left to the sampled interrupts of ordinary histories
        res.probe("interrupt_sweep_skipped_call_too_long")
        return res.finish(tr)
    if K > 3000:
        smax = min(smax, 40)
    ks = list(range(1, K + 1)) if K <= smax else sorted({1 + (i * (K - 1)) // (smax - 1) for i in range(smax)})
    res.probe("interrupt_sweep_exhaustive" if K <= smax else "interrupt_sweep_sampled_evenly")
    for k in ks:
        hist = fork([0, 1, 2], {"1": k})
        if hist is None:
            res.discarded = "over_step_budget"
            tr.add("discard", why="step budget inside the sweep", k=k)
            return res.finish(tr)
        res.evaluations += 1
        res.nontrivial = 1
        for rec in hist:
            if rec.get("async_fired"):
                res.fault("interrupt_at_arbitrary_executed_line")
            if rec["mutated"]:
                res.violate("input-mutated", step=rec["index"], op=ops[rec["index"]], containers=rec["mutated"], interrupted_at_line=k)
                tr.add("sweep-point", k=k, mutated=rec["mutated"])
                return res.finish(tr)
        mine = _comparable(ops[2], hist[-1]["outcome"]) if hist[-1]["index"] == 2 else {"missing": True}
        tr.add("sweep-point", k=k, interrupted=hist[1]["outcome"] if len(hist) > 1 else None, same=(mine == fresh))
        if mine != fresh:
            ref2 = fork([2], {})
            if ref2 is None or _comparable(ops[2], ref2[-1]["outcome"]) != fresh:
                res.note("unstable_reference")
                continue
            res.violate("differs-from-fresh", step=2, op=ops[2], in_history=_short(mine), fresh=_short(fresh),
                        previous=[_opkind(ops[0]), _opkind(ops[1])], interrupted_at_line=k, of_lines=K)
            break
    res.cells.append("@shape:%016x" % core.H(["sweep", ops[0].get("algo")]))
    return res.finish(tr)


def _form(plan, cid):
    return next(c["form"] for c in plan["pool"] if c["id"] == cid)


def _names(plan, cid):
    return next(c.get("names") for c in plan["pool"] if c["id"] == cid)


def _short(x):
    s = core.jdump(x)
    return s if len(s) <= 700 else s[:700] + "..."


# ---------------------------------------------------------------- shrinking

def shrink_candidates(plan, clause):
    ops = plan["ops"]
    n = len(ops)
    if plan.get("sweep"):
        # the three operations are the sweep; only the container shrinks
        for ci, c in enumerate(plan["pool"]):
            if len(c["values"]) > 1:
                for k in range(len(c["values"])):
                    c2 = dict(c, values=c["values"][:k] + c["values"][k + 1:])
                    if "names" in c:
                        c2["names"] = c["names"][:k] + c["names"][k + 1:]
                    yield dict(plan, pool=plan["pool"][:ci] + [c2] + plan["pool"][ci + 1:])
        for i, op in enumerate(ops):
            if op.get("out") not in ("Partition", "contents", "sums", "raw"):
                yield dict(plan, ops=ops[:i] + [dict(op, out="Partition")] + ops[i + 1:])
        return

    def drop(idxs):
        idxs = set(idxs)
        remap = {}
        new = []
        for i, op in enumerate(ops):
            if i in idxs:
                continue
            remap[i] = len(new)
            new.append(op)
        out = []
        for op in new:
            if op["op"] in ("repeat", "scribble"):
                if op["of"] not in remap:
                    return None
                op = dict(op, of=remap[op["of"]])
            out.append(op)
        p = dict(plan)
        p["ops"] = out
        return p
    for cut in (n // 2, n - n // 4, n - 1):
        if 0 < cut < n:
            p = drop(range(cut, n))
            if p:
                yield p
    size = max(1, n // 4)
    while size >= 1:
        for i in range(0, n, size):
            p = drop(range(i, min(n, i + size)))
            if p and p["ops"]:
                yield p
        size //= 2
    # turn a repeat into the call itself (so that the original can be dropped)
    for i, op in enumerate(ops):
        if op["op"] == "repeat":
            p = dict(plan)
            p["ops"] = ops[:i] + [copy.deepcopy(_resolve(plan, i))] + ops[i + 1:]
            yield p
    if plan.get("log"):
        yield dict(plan, log=None)
    # remove faults, simplify output types and kwargs
    for i, op in enumerate(ops):
        if op["op"] != "call":
            continue
        if op.get("fault"):
            p = dict(plan)
            p["ops"] = ops[:i] + [dict(op, fault=None)] + ops[i + 1:]
            yield p
        if op.get("direct"):
            p = dict(plan)
            p["ops"] = ops[:i] + [{k_: v_ for k_, v_ in dict(op, out="Partition").items() if k_ != "direct"}] + ops[i + 1:]
            yield p
        if op.get("out") not in ("Partition", "contents", "sums"):
            p = dict(plan)
            p["ops"] = ops[:i] + [dict(op, out="Partition")] + ops[i + 1:]
            yield p
        if op.get("kwargs"):
            for key in list(op["kwargs"]):
                kw = dict(op["kwargs"])
                del kw[key]
                p = dict(plan)
                p["ops"] = ops[:i] + [dict(op, kwargs=kw)] + ops[i + 1:]
                yield p
    # drop unused containers; shrink containers
    used = {(ops[i] if ops[i]["op"] == "edit" else _resolve(plan, i))["pool"] for i in range(n) if ops[i]["op"] != "scribble"}
    if any(c["id"] not in used for c in plan["pool"]):
        p = dict(plan)
        p["pool"] = [c for c in plan["pool"] if c["id"] in used]
        yield p
    for ci, c in enumerate(plan["pool"]):
        if len(c["values"]) > 1:
            for k in range(len(c["values"])):
                c2 = dict(c, values=c["values"][:k] + c["values"][k + 1:])
                if "names" in c:
                    c2["names"] = c["names"][:k] + c["names"][k + 1:]
                p = dict(plan)
                p["pool"] = plan["pool"][:ci] + [c2] + plan["pool"][ci + 1:]
                yield p
        for k, v in enumerate(c["values"]):
            for nv in sorted({0, 1, v // 2}):
                if nv < v:
                    c2 = dict(c, values=c["values"][:k] + [nv] + c["values"][k + 1:])
                    p = dict(plan)
                    p["pool"] = plan["pool"][:ci] + [c2] + plan["pool"][ci + 1:]
                    yield p


def sample_for_evidence(plan, result):
    return {"run_seed": result["seed"], "pool": plan["pool"], "ops": plan["ops"][:12], "ops_total": len(plan["ops"]), "digest": result["digest"]}
