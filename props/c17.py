"""
C17 - ILP options (copies, weights, constraints) are honoured; errors instead of unproven answers.

System under simulation: integer_programming.optimal through prtpy.partition (real), python-mip
+ CBC (real in the fault-free arm), with the solver's verdict and timing owned by SimSolver at
mip.Model.optimize. One run = one model (option vector) + one solver behaviour.
"""
import itertools
import math
from collections import Counter

from dsim import core, refmodels
from dsim.core import Result, Trace, canon, plain
from dsim.seams import SimSolver, LogSeam, warm_up_solver

ID = "C17"
LEVEL = "exploration"
RUN_WALL_WATCHDOG_S = 300.0
LARGE_MAX_NODES = 3000      # real-solver work bound for the 101-130 item requests (a solve that stops there is not judged)

TIERS = {
    "quick":    {"runs": 42000, "chunk": 12, "wall_cap_s": 80, "size": 0,
                 "det_sample_min": 12, "det_sample_frac": 0.003, "max_reports": 3, "shrink_candidates": 150, "large_share": 0.004},
    "thorough": {"runs": 400000, "chunk": 24, "wall_cap_s": 1700, "size": 1,
                 "det_sample_min": 32, "det_sample_frac": 0.0005, "max_reports": 4, "shrink_candidates": 300,
                 "fresh_interpreter_check": True, "fresh_sample": 32, "large_share": 0.004},
}

RULE = ("One run = one seeded ILP request (1-6 integer items <= 200, 1-4 bins, copies as one number or per item in {0,1,2}, weights in "
        "{none, uniform, non-uniform}, an extra constraint 'smallest==c' / 'largest<=c' / 'smallest>=c' with c drawn around reachable values "
        "so that feasible and infeasible cases both occur, one of the five sum-based objectives, list / dict / names+valueof input) solved "
        "under one simulated solver behaviour: real CBC, in 30% of these runs with the solution read back only up to the integrality tolerance "
        "(fault-free arm, judged against an exhaustive reference model of reachable sum vectors), or a fault (11 non-OPTIMAL statuses after a real "
        "solve or without any solve, solver exceptions incl. a user interrupt, a simulated solve duration longer than the time limit prtpy "
        "forwarded). In 20% of the runs the caller has used the same objective object for a request with another number of bins just before; the "
        "logging level of prtpy is drawn per run. A fault-free mismatch is re-solved with CBC preprocessing off to tell the solver's own "
        "wrong answers apart from prtpy's. evaluations = calls of the real ILP partitioner judged. A case is non-trivial when at least one "
        "option is non-default (copies != 1, weights, constraint, time limit) or a solver fault fired; distinct = distinct plans among those.")

ASSUMPTIONS = [
    "the solver is trusted only as far as the property trusts it: a mismatch that disappears when the same model is re-solved with preprocessing off is counted as a natural solver fault (evidence: notes.solver_fault_natural), not as a violation",
    "a finite time limit is never forwarded to the real CBC: time-outs are represented by the statuses CBC documents for them (FEASIBLE / NO_SOLUTION_FOUND)",
    "item values are integers <= 200 and weights are small positive numbers; equality of objective values is exact for unweighted / uniform models and within 1e-9 for weighted ones",
    "reference model: exhaustive set of reachable sum vectors (dsim/refmodels.py), cross-checked at start-up",
]

COMPONENTS = {
    "real": ["prtpy.partitioning.integer_programming.optimal", "prtpy.partition adaptor", "prtpy.objectives", "bins-managers", "python-mip 2.0.0", "CBC (cbcbox) in modes real / real_then_status / sim_timeout"],
    "simulated": ["solver verdict, exceptions and duration: dsim.seams.SimSolver at mip.Model.optimize", "solution read-back within the integrality tolerance: mip.Var.x",
                  "logging level of the prtpy.* loggers (LogSeam)"],
    "stubbed": ["CBC is not run at all in modes stub_status / raise / sim_timeout(NO_SOLUTION_FOUND)"],
}

STATUSES = ["FEASIBLE", "NO_SOLUTION_FOUND", "ERROR", "INFEASIBLE", "UNBOUNDED", "INT_INFEASIBLE", "CUTOFF", "LOADED", "OTHER", "INF_OR_UNBD", "TRUNCATED"]

_solver = SimSolver()
_log = LogSeam()
NOISE = "solver_x_within_integrality_tolerance"


def prepare_parent():
    warm_up_solver()


# ---------------------------------------------------------------- helpers shared by generation and oracle (pure)

def _copies_list(plan):
    c = plan["copies"]
    n = len(plan["values"])
    return [c] * n if isinstance(c, int) else list(c)


def _weights_kind(plan):
    w = plan.get("weights")
    if w is None:
        return "none"
    return "uniform" if len(set(w)) <= 1 else "non-uniform"


def plan_attributes(plan):
    return {"weights": _weights_kind(plan)}


def _constraint_ok(con, sums_sorted):
    if con is None:
        return True
    c = con["c"]
    if con["kind"] == "mineq":
        return sums_sorted[0] == c
    if con["kind"] == "maxle":
        return sums_sorted[-1] <= c
    if con["kind"] == "minge":
        return sums_sorted[0] >= c
    raise ValueError(con["kind"])


# ---------------------------------------------------------------- plan generation

def gen_plan(seed, tier):
    cfg = TIERS[tier]
    r = core.rng(seed, "c17-swarm")
    k = r.choices([1, 2, 3, 4], weights=[8, 40, 34, 18])[0]
    nmax = {1: 6, 2: 6, 3: 6, 4: 5}[k] + cfg["size"]
    n = r.randint(1, nmax)
    style = r.choice(["small", "wide", "wide", "narrow", "dupes", "zeros", "multiples"])
    if style == "small":
        values = [r.randint(1, 15) for _ in range(n)]
    elif style == "wide":
        values = [r.randint(1, 200) for _ in range(n)]
    elif style == "narrow":
        a = r.choice([10, 50, 100])
        values = [r.randint(a, 2 * a) for _ in range(n)]
    elif style == "multiples":      # a common factor > 1 (a model that rescales values must rescale the caller's constraints too)
        g = r.choice([2, 3, 5, 10, 25])
        values = [g * r.randint(1, 200 // g) for _ in range(n)]
    elif style == "dupes":
        v = r.randint(1, 200)
        values = [r.choice([v, v, r.randint(1, 200)]) for _ in range(n)]
    else:
        values = [r.choice([0, r.randint(1, 50)]) for _ in range(n)]
    cm = r.choices(["default", "one", "two", "zero", "per_item"], weights=[35, 10, 20, 3, 32])[0]
    copies = {"default": None, "one": 1, "two": 2, "zero": 0}.get(cm, None)
    if cm == "per_item":
        copies = [r.choice([0, 1, 1, 2, 2]) for _ in range(n)]
    wm = r.choices(["none", "uniform", "non-uniform"], weights=[55, 25, 20])[0]
    weights = None
    if wm == "uniform":
        w = r.choice([1, 1, 2, 3, 0.5, 7, 10])
        weights = [w] * k
    elif wm == "non-uniform":
        weights = [r.choice([1, 2, 3, 4, 5, 10]) for _ in range(k)]
        if len(set(weights)) == 1:
            if k == 1:
                wm = "uniform"
            else:
                weights[0] = weights[0] + 1
    objective = r.choice(["min", "max", "diff", "kmin:%d" % r.randint(1, k), "kmax:%d" % r.randint(1, k)])
    plan = {"prop": "C17", "form": r.choice(["list", "list", "dict", "names", "ndarray"]), "values": values, "numbins": k,
            "objective": objective, "copies": copies, "weights": weights, "constraint": None, "time_limit": None,
            "out": r.choice(["PartitionAndSumsTuple", "PartitionAndSumsTuple", "PartitionAndSums", "Partition", "Sums"])}
    if plan["form"] in ("dict", "names"):
        plan["names"] = [f"n{j}" for j in range(n)]
    plan["copies_form"] = r.choice(["list", "list", "list", "tuple", "ndarray"])
    plan["weights_form"] = r.choice(["list", "list", "list", "tuple", "ndarray"])
    plan["log"] = r.choice([None, None, None, None, None, "INFO", "DEBUG"])
    # an extra constraint (only for unweighted / uniform models: see DESIGN 5.2), c around reachable values
    if wm != "non-uniform" and r.random() < 0.45:
        cl = _copies_list(dict(plan, copies=1 if copies is None else copies))
        vecs = sorted(refmodels.reachable_sorted_copies(values, cl, k))
        kind = r.choice(["mineq", "maxle", "minge"])
        pick = r.choice(vecs)
        base = pick[0] if kind in ("mineq", "minge") else pick[-1]
        c = base + r.choice([0, 0, 0, 0, 1, -1, 3, -7, 50, -50])
        if r.random() < 0.3:
            # a constant next to a sum of the greedy (LPT) partition of the requested copies, at ANY position of it:
            # the natural 'other' partition an implementation may look at (bounds, warm starts, canonical outputs)
            g = refmodels.lpt_sums([v for v, cnt in zip(values, cl) for _ in range(cnt)], k)
            if g:
                c = r.choice(list(g)) + r.choice([0, 0, 1, 1, -1, 2])
        if r.random() < 0.08:
            c = r.choice([0, -1, sum(values) * 3 + 1])
        plan["constraint"] = {"kind": kind, "c": c}
    if wm == "non-uniform" and r.random() < 0.35:
        # an extra constraint on the WEIGHTED sums the library hands over (judged against the library's own restricted
        # model, DESIGN 5.2): inequalities with a constant that keeps 0.004 clear of every reachable weighted sum
        # (these are multiples of 1/weight, so two different ones are >= 0.008 apart), equalities only with an integer
        cl = _copies_list(dict(plan, copies=1 if copies is None else copies))
        ordered = sorted(refmodels.reachable_ordered(values, cl, k))
        asc = [v for v in ordered if all(v[i] * weights[i + 1] <= v[i + 1] * weights[i] for i in range(k - 1))] or ordered
        pick = r.choice(asc)
        kind = r.choice(["mineq", "maxle", "minge"])
        num, den = (pick[0], weights[0]) if kind in ("mineq", "minge") else (pick[-1], weights[-1])
        if kind == "mineq" and num % den != 0:
            kind = "minge"
        if kind == "mineq":
            c = num // den
        else:
            c = round(num / den + r.choice([0.004, 0.004, 0.004, -0.004, 1.004, -1.004, 3.004, -7.004]), 6)
        plan["constraint"] = {"kind": kind, "c": c, "weighted": True}
    # a two-step history: the caller has used the same objective object for another request before
    if r.random() < 0.2:
        pk = r.choice([x for x in (1, 2, 3, 4) if x != k])
        plan["prior"] = {"numbins": pk, "values": [r.randint(1, 60) for _ in range(r.randint(1, 5))]}
    # solver behaviour
    arm = r.choices(["real", "fault"], weights=[70, 30])[0]
    if arm == "real":
        plan["solver"] = {"mode": "real"}
        if r.random() < 0.15:
            plan["time_limit"] = r.choice([1, 10, 1000])
        if r.random() < 0.3:
            # the solver proves optimality but, as MIP solvers do, returns the integer variables only up to its
            # integrality tolerance (CBC: 1e-6): 0.9999999 for 1
            plan["solver"]["x_noise"] = {"seed": r.getrandbits(31), "eps": r.choice([1e-9, 1e-7, 4e-7])}
    else:
        mode = r.choice(["real_then_status", "stub_status", "raise", "sim_timeout", "sim_timeout"])
        s = {"mode": mode}
        if mode in ("real_then_status", "stub_status"):
            s["status"] = r.choice(STATUSES)
        elif mode == "raise":
            s["exc"] = r.choice(["InterfacingError", "MemoryError", "InjectedFault", "KeyboardInterrupt"])
        else:
            s["sim_duration"] = r.choice([5.0, 60.0])
            s["late"] = r.choice(["FEASIBLE", "NO_SOLUTION_FOUND"])
            plan["time_limit"] = r.choice([1, 4.999, 5.0, 10, 59, 61, 1000])
        plan["solver"] = s
    # a small share of LARGE requests (101-130 items: three-digit item indices, many variables), on their own random
    # stream so that every other plan stays what it was. The exhaustive reference is out of reach there; the oracle is
    # the placement check plus 'a balanced sum vector is optimal for every objective' / subset-sum DP for two bins.
    rl = core.rng(seed, "c17-large")
    if rl.random() < cfg.get("large_share", 0):
        n = rl.randint(101, 130)
        k = 2       # CBC needs minutes for some 3-bin requests of this size, and its real clock is not ours to limit
        # values <= 15: the sums stay below 4 000, so that the solver's default RELATIVE gap tolerance (1e-4) is smaller
        # than one unit of the objective - with values up to 200 CBC rightly calls [20005, 20009] "optimal" next to
        # [20007, 20007] (seen on the unchanged tree; the solver's tolerance, not prtpy's model)
        lstyle = rl.choice(["small", "small", "dupes"])
        v0 = rl.randint(1, 15)
        values = [rl.randint(1, 15) if lstyle == "small" else rl.choice([v0, v0, rl.randint(1, 15)]) for _ in range(n)]
        cm = rl.choice(["default", "default", "one", "two", "per_item", "per_item"])
        copies = {"default": None, "one": 1, "two": 2}.get(cm)
        if cm == "per_item":
            copies = [rl.choice([0, 1, 1, 2]) for _ in range(n)]
        plan.update(values=values, numbins=k, copies=copies, constraint=None, large=True,
                    weights=rl.choice([None, None, [2] * k, [0.5] * k]),
                    objective=rl.choice(["min", "max", "diff", "kmin:1", "kmax:%d" % k]))
        if plan["form"] in ("dict", "names"):
            plan["names"] = [f"n{j}" for j in range(n)]
    return plan


# ---------------------------------------------------------------- executing the real code

_objs = {}


def _objective(name):
    """The objective object is caller-owned: ONE object per run, shared by the prior call (if any),
    the judged call and the re-solves."""
    from prtpy import objectives as obj
    if name not in _objs:
        if name.startswith("kmin:"):
            _objs[name] = obj.MaximizeKSmallestSums(int(name[5:]))
        elif name.startswith("kmax:"):
            _objs[name] = obj.MinimizeKLargestSums(int(name[5:]))
        else:
            _objs[name] = {"diff": obj.MinimizeDifference, "max": obj.MinimizeLargestSum, "min": obj.MaximizeSmallestSum}[name]
    return _objs[name]


def _constraint_fn(con, weights):
    """The caller's constraint, written against the (weighted) sums the library hands over."""
    if con is None:
        return None
    w = weights[0] if weights else 1
    c = con["c"] if con.get("weighted") else con["c"] / w
    kind = con["kind"]
    if kind == "mineq":
        return lambda sums: [sums[0] == c]
    if kind == "maxle":
        return lambda sums: [sums[-1] <= c]
    return lambda sums: [sums[0] >= c]


def batch_harness_errors(results):
    total = sum(d["notes"].get("requests", 0) for d in results.values())
    blind = sum(d["notes"].get("requests_answered_without_the_solver", 0) for d in results.values())
    if total >= 20 and blind * 2 > total:
        return [f"solver seam not reached: {blind} of {total} ILP requests never called mip.Model.optimize - the tree under test seems to "
                f"drive the solver through an entry point the simulator does not own; nothing can be concluded"]
    return []


def _present(value, form):
    """How the caller spells a per-item / per-bin option: a list (documented), or another sequence type; one number
    for all items may be a numpy integer (e.g. the result of arr.max())."""
    if isinstance(value, int) and form == "ndarray":
        import numpy as np
        return np.int64(value)
    if not isinstance(value, list) or form in (None, "list"):
        return list(value) if isinstance(value, list) else value
    if form == "tuple":
        return tuple(value)
    import numpy as np
    return np.array(value)


def _call(plan, solver_mode, weights="plan"):
    import numpy as np
    import prtpy
    from prtpy import outputtypes as out
    values = plan["values"]
    form = plan["form"]
    valueof = None
    if form == "dict":
        items = dict(zip(plan["names"], values))
    elif form == "names":
        items = list(plan["names"])
        vm = dict(zip(plan["names"], values))
        valueof = vm.__getitem__
    elif form == "ndarray":
        items = np.array(values, dtype=np.int64)
    else:
        items = list(values)
    kw = {"objective": _objective(plan["objective"])}
    if plan["copies"] is not None:
        kw["copies"] = _present(plan["copies"], plan.get("copies_form"))
    w = plan["weights"] if weights == "plan" else weights
    if w is not None:
        kw["weights"] = _present(list(w), plan.get("weights_form"))
    cf = _constraint_fn(plan["constraint"], w)
    if cf is not None:
        kw["additional_constraints"] = cf
    if plan["time_limit"] is not None:
        kw["time_limit"] = plan["time_limit"]
    if plan.get("large"):
        solver_mode = dict(solver_mode, max_nodes=LARGE_MAX_NODES)
    _solver.use(solver_mode)
    _solver.fired = {}
    try:
        val = prtpy.partition(algorithm=prtpy.partitioning.ilp, numbins=plan["numbins"], items=items, valueof=valueof,
                              outputtype=getattr(out, plan["out"]), **kw)
        return ("ok", val)
    except (Exception, KeyboardInterrupt) as e:
        return ("exc", e)
    finally:
        _solver.use({"mode": "real"})


def _real_solver_gave_up():
    st = _solver.last_real_status
    return st is not None and getattr(st, "name", str(st)) != "OPTIMAL"


def _extract(plan, val):
    """-> (reported sums or None, lists or None) in plain python."""
    o = plan["out"]
    if o == "PartitionAndSumsTuple":
        return [float(x) for x in plain(val[0])], [list(plain(b)) for b in val[1]]
    if o == "PartitionAndSums":
        return [float(x) for x in plain(val.sums)], [list(plain(b)) for b in val.lists]
    if o == "Partition":
        return None, [list(plain(b)) for b in val]
    return [float(x) for x in plain(val)], None


def _scale(w):
    L = 1
    for wi in w:
        L = L * wi // math.gcd(L, wi)
    return L, [L // wi for wi in w]


def _constraint_ok_scaled(con, swv, L):
    """The caller's constraint on sorted weighted sums given as integers scaled by L."""
    c = con["c"] * L
    if con["kind"] == "mineq":
        return swv[0] == c
    if con["kind"] == "maxle":
        return swv[-1] <= c
    return swv[0] >= c


def _near_constant(con, swv, L):
    """A reachable weighted sum closer than 1e-4 to the caller's constant without being exactly it (or exactly it for
    an inequality): the solver's feasibility tolerance and the library's float division decide such a request, not the
    model. Such requests are not judged."""
    c = con["c"] * L
    x = swv[-1] if con["kind"] == "maxle" else swv[0]
    d = abs(x - c)
    if con["kind"] == "mineq":
        return 0 < d < 1e-4 * L
    return d < 1e-4 * L


def _reference(plan, cache):
    if "ref" in cache:
        return cache["ref"]
    values, k = plan["values"], plan["numbins"]
    cl = _copies_list(dict(plan, copies=1 if plan["copies"] is None else plan["copies"]))
    if plan.get("large"):
        flat = [v for v, c in zip(values, cl) for _ in range(c)]
        total = sum(flat)
        ref = {"kind": "large", "feasible": True, "n": len(flat), "total": total, "optimum": None,
               "balanced": sorted([total // k + (1 if i < total % k else 0) for i in range(k)])}
        if k == 2:
            bits = 1
            for v in flat:
                bits |= bits << v
            half = total // 2
            low = (bits & ((1 << (half + 1)) - 1)).bit_length() - 1
            ref["optimum"] = refmodels.objective_value(plan["objective"], [low, total - low])
        elif k == 1:
            ref["optimum"] = refmodels.objective_value(plan["objective"], [total])
        cache["ref"] = ref
        return ref
    if _weights_kind(plan) == "non-uniform":
        # Everything in integers: weighted sum i = s_i / w_i is represented by s_i * (L / w_i), L = lcm of the weights.
        ordered = refmodels.reachable_ordered(values, cl, k)
        w = plan["weights"]
        L, m = _scale(w)
        con = plan["constraint"]
        ambiguous = False
        true_best = own_best = None
        n_true = n_own = 0
        for vec in ordered:
            wv = [s * mi for s, mi in zip(vec, m)]
            asc = all(wv[i] <= wv[i + 1] for i in range(k - 1))
            swv = wv if asc else sorted(wv)
            if con is not None:
                if _near_constant(con, swv, L):
                    ambiguous = True
                if not _constraint_ok_scaled(con, swv, L):
                    continue
            v = refmodels.objective_value(plan["objective"], swv)
            n_true += 1
            if true_best is None or v < true_best:
                true_best = v
            if asc:
                n_own += 1
                if own_best is None or v < own_best:
                    own_best = v
        # optimum: over every assignment of bins to weights (what the property states); own_optimum: over the assignments
        # whose weighted sums ascend in bin order (the model prtpy builds - the open known finding is the gap between the two)
        cache["ref"] = {"kind": "weighted", "optimum": true_best, "own_optimum": own_best, "n": len(ordered), "feasible": n_true > 0,
                        "own_feasible": n_own > 0, "nfeasible": n_true, "n_own_feasible": n_own, "ambiguous": ambiguous, "L": L}
    else:
        vecs = refmodels.reachable_sorted_copies(values, cl, k)
        feas = [v for v in vecs if _constraint_ok(plan["constraint"], v)]
        cache["ref"] = {"kind": "plain", "feasible": bool(feas), "n": len(vecs), "nfeasible": len(feas),
                        "optimum": min(refmodels.objective_value(plan["objective"], v) for v in feas) if feas else None,
                        "vectors": vecs}
    return cache["ref"]


def _judge(plan, outcome, cache):
    """Fault-free oracle. -> list of (clause, detail)."""
    ref = _reference(plan, cache)
    kind, val = outcome
    out = []
    if ref.get("ambiguous"):
        return out
    if kind == "exc":
        if ref["kind"] == "weighted":
            if ref["own_feasible"]:
                out.append(("raised-but-feasible", {"exception": type(val).__name__, "message": str(val)[:160]}))
            elif ref["feasible"]:
                out.append(("weighted-optimal", {"why": "refused although an assignment with non-ascending weighted sums satisfies the constraint",
                                                 "exception": type(val).__name__}))
            return out
        if ref["feasible"]:
            out.append(("raised-but-feasible", {"exception": type(val).__name__, "message": str(val)[:160]}))
        return out
    if not ref["feasible"]:
        out.append(("returned-but-infeasible", {"returned": canon(val)}))
        return out
    try:
        sums, lists = _extract(plan, val)
    except Exception as e:
        return [("sums-mismatch", {"why": "unreadable result", "exception": type(e).__name__})]
    values = plan["values"]
    k = plan["numbins"]
    cl = _copies_list(dict(plan, copies=1 if plan["copies"] is None else plan["copies"]))
    names = plan.get("names") if plan["form"] in ("dict", "names") else None
    vm = dict(zip(names, values)) if names else None
    true_sums = None
    if lists is not None:
        if len(lists) != k:
            out.append(("copies", {"why": "number of bins", "got": len(lists), "want": k}))
            return out
        got = Counter(itertools.chain.from_iterable(lists))
        want = Counter()
        for idx, (v, c) in enumerate(zip(values, cl)):
            want[names[idx] if names else v] += c
        want = +want
        if got != want:
            out.append(("copies", {"placed": sorted(got.items(), key=str), "requested": sorted(want.items(), key=str)}))
        true_sums = [float(sum((vm[i] if vm else i) for i in b)) for b in lists]
        if sums is not None and [float(s) for s in sums] != true_sums:
            out.append(("sums-mismatch", {"reported": sums, "contents_total": true_sums}))
    if sums is None:
        sums = true_sums
    if len(sums) != k:
        out.append(("copies", {"why": "number of bins", "got": len(sums), "want": k}))
        return out
    if any(sums[i] > sums[i + 1] for i in range(len(sums) - 1)):
        out.append(("not-ascending", {"sums": sums}))
    if ref["kind"] == "large":
        if not out:
            if float(sum(sums)) != float(ref["total"]):
                out.append(("copies", {"why": "reported sums do not add up to the requested copies", "sums": sums, "want_total": ref["total"]}))
            else:
                v = refmodels.objective_value(plan["objective"], sums)
                bal = refmodels.objective_value(plan["objective"], ref["balanced"])
                if ref["optimum"] is not None:
                    if v != ref["optimum"]:
                        out.append(("not-optimal", {"value": canon(v), "optimum": canon(ref["optimum"]), "sums": sums}))
                elif v != bal:
                    # more than two bins and not balanced: the optimum is not known to the oracle
                    cache["large_unjudged"] = True
    elif ref["kind"] == "plain":
        ssorted = sorted(sums)
        if lists is None and tuple(int(x) if float(x).is_integer() else x for x in ssorted) not in ref["vectors"]:
            out.append(("copies", {"why": "reported sums are not reachable with the requested copies", "sums": sums}))
        if not _constraint_ok(plan["constraint"], ssorted):
            out.append(("constraint-violated", {"constraint": plan["constraint"], "sums": sums}))
        v = refmodels.objective_value(plan["objective"], sums)
        if v != ref["optimum"] and not out:
            out.append(("not-optimal", {"value": canon(v), "optimum": canon(ref["optimum"]), "sums": sums}))
    elif not out:
        w = plan["weights"]
        L, m = _scale(w)
        con = plan["constraint"]
        if any(not float(x).is_integer() for x in sums):
            return [("sums-mismatch", {"why": "non-integer sum of integer items", "sums": sums})]
        isums = [int(x) for x in sums]

        def scaled(p):
            return [x * mi for x, mi in zip(p, m)]

        def con_ok(wv_sorted):
            return con is None or _constraint_ok_scaled(con, wv_sorted, L)
        wv = scaled(isums)
        v = refmodels.objective_value(plan["objective"], wv)
        if not (con_ok(sorted(wv)) and v == ref["optimum"]):
            # Not what the property states. How far off? (a) is some other assignment of the returned bins to the weights
            # optimal (-> only the order is wrong)? (b) is the answer at least an optimum of the model prtpy itself builds
            # (weighted sums ascending in bin order)? The open known finding explains (a) and everything down to (b);
            # an answer worse than (b) is a different defect and has its own clause.
            perms = set(itertools.permutations(isums))
            cand = [refmodels.objective_value(plan["objective"], scaled(p)) for p in perms if con_ok(sorted(scaled(p)))]
            best_perm = min(cand) if cand else None
            own = [refmodels.objective_value(plan["objective"], scaled(p)) for p in perms
                   if all(a <= b for a, b in zip(scaled(p), scaled(p)[1:])) and con_ok(scaled(p))]
            best_own = min(own) if own else None
            det = {"sums": sums, "weights": w, "constraint": con, "scale": L, "value_in_returned_order": v, "optimum": ref["optimum"],
                   "best_over_orders_of_returned_bins": best_perm, "own_model_optimum": ref["own_optimum"],
                   "best_own_model_reading_of_returned_bins": best_own}
            if best_perm is not None and best_perm == ref["optimum"]:
                out.append(("weighted-order", det))
            else:
                out.append(("weighted-optimal", det))
            if best_own is None or best_own != ref["own_optimum"]:
                out.append(("weighted-worse-than-own-model", det))
    return out


def execute(plan, seed=0):
    import warnings
    warnings.simplefilter("ignore")
    res = Result(seed, plan)
    tr = Trace()
    res.instance_key = "%016x" % core.H("c17", plan)
    _solver.install()
    _log.configure(plan.get("log"))
    cache = {}
    s = plan["solver"]
    tr.add("plan", plan=plan)
    if plan.get("prior"):
        pr = plan["prior"]
        p0 = dict(plan, values=pr["values"], numbins=pr["numbins"], form="list", copies=None, weights=None, constraint=None,
                  time_limit=None, out="Sums")
        o0 = _call(p0, {"mode": "real"})
        tr.add("prior-call", outcome=canon(o0[1]))
        res.probe("prior_call_sharing_the_objective_object")
        _solver.calls = 0
    outcome = _call(plan, s)
    fired = dict(_solver.fired)
    forwarded = _solver.last_forwarded_max_seconds
    res.evaluations += 1
    tr.add("call", outcome=canon(outcome[1]), solver_fired=fired, forwarded_max_seconds=canon(forwarded), solver_calls=_solver.calls)
    for k_, v_ in fired.items():
        res.fault(k_, v_)
    res.note("requests")
    if _solver.calls == 0:
        # the request was answered without the solver (nothing to place, say): no solver fault can fire, so the answer
        # is judged by the fault-free oracle below. Whether the solver seam is reached AT ALL is decided over the batch.
        res.note("requests_answered_without_the_solver")
    nontrivial = bool(fired) or bool(s.get("x_noise")) or bool(plan.get("prior")) or plan["copies"] not in (None, 1) or plan["weights"] is not None or plan["constraint"] is not None or plan["time_limit"] is not None
    tolerance_noise = fired.pop(NOISE, 0)
    if tolerance_noise:
        res.probe("solution_read_back_within_integrality_tolerance")
    if fired:
        # fault arm: the solver did not prove optimality -> the call must raise, whatever else
        if outcome[0] == "ok":
            res.violate("returned-on-non-optimal", solver=s, returned=canon(outcome[1]), time_limit=plan["time_limit"])
        else:
            res.probe("raised_" + type(outcome[1]).__name__ + "_on_non_optimal")
    else:
        if s["mode"] == "sim_timeout":
            res.probe("sim_timeout_not_reached_real_solve")
        v1 = _judge(plan, outcome, cache)
        if plan.get("large") and outcome[0] == "exc" and _real_solver_gave_up():
            res.note("large_request_real_solver_hit_its_node_limit_not_judged")
            v1 = []
        if v1 and outcome[0] == "exc" and (plan.get("copies_form") not in (None, "list") or plan.get("weights_form") not in (None, "list")):
            # the options were spelled as a tuple / numpy array; the documented spelling is a list. Refusing another
            # spelling with an error is the library's right - a silently wrong answer is not. Judge the list spelling.
            plan_l = dict(plan, copies_form="list", weights_form="list")
            o_l = _call(plan_l, s)
            res.evaluations += 1
            if o_l[0] == "ok":
                res.note("non_list_option_spelling_refused")
                tr.add("respelled-as-list", first=canon(outcome[1]), outcome=canon(o_l[1]))
                plan, outcome = plan_l, o_l
                v1 = _judge(plan, outcome, cache)
        if v1:
            # discriminator: the same request with CBC preprocessing off, and if the mismatch persists, with cut
            # generation off as well (plain branch and bound). prtpy's own code runs unchanged; only the solver is made
            # more conservative. An answer that then satisfies the oracle shows that the model prtpy built is right and
            # the first answer was the solver's own fault.
            noise = {"x_noise": s["x_noise"]} if s.get("x_noise") else {}
            conservative = dict({"mode": "real", "preprocess": 0}, **noise)
            outcome2 = _call(plan, conservative)
            res.evaluations += 1
            v2 = _judge(plan, outcome2, cache)
            gave_up = plan.get("large") and outcome2[0] == "exc" and _real_solver_gave_up()
            tr.add("recheck-preprocess-off", first=[c for c, _ in v1], second=[c for c, _ in v2], outcome=canon(outcome2[1]))
            if gave_up:
                # the conservative re-solve of a large request stopped at its node limit: nobody can tell whose fault
                # the first answer was
                res.note("large_request_recheck_hit_its_node_limit_not_judged")
                v2 = []
            elif v2:
                conservative = dict(conservative, cuts=0)
                outcome2 = _call(plan, conservative)
                res.evaluations += 1
                v2b = _judge(plan, outcome2, cache)
                if plan.get("large") and outcome2[0] == "exc" and _real_solver_gave_up():
                    res.note("large_request_recheck_hit_its_node_limit_not_judged")
                    gave_up = True
                    v2b = []
                tr.add("recheck-cuts-off", second=[c for c, _ in v2], third=[c for c, _ in v2b], outcome=canon(outcome2[1]))
                if not v2b and not gave_up:
                    res.note("solver_fault_natural_needs_cuts_off")
                v2 = v2b
            if gave_up:
                pass
            elif not v2:
                res.note("solver_fault_natural")
                res.note("solver_fault_natural:" + v1[0][0])
            else:
                for clause, det in v2:
                    res.violate(clause, with_conservative_solver=True, first_attempt=[c for c, _ in v1], **det)
                if any(c == "not-optimal" for c, _ in v2) and _weights_kind(plan) == "uniform":
                    o3 = _call(plan, conservative, weights=None)
                    res.evaluations += 1
                    p3 = dict(plan, weights=None)
                    v3 = _judge(p3, o3, {})
                    if not v3:
                        res.violations = [v for v in res.violations if v["clause"] != "not-optimal"]
                        res.violate("uniform-weights-changed-value", weights=plan["weights"], with_weights=canon(outcome2[1]), without=canon(o3[1]))
        ref = _reference(plan, cache)
        if ref["kind"] == "large":
            res.probe("large_request_101_to_130_items")
            if cache.get("large_unjudged"):
                res.note("large_request_optimality_not_judged")
        if ref["kind"] == "weighted":
            if ref.get("ambiguous"):
                res.note("weighted_constraint_too_close_to_a_reachable_sum_not_judged")
            elif plan["constraint"] is not None:
                res.probe("weighted_constraint_judged_against_own_model")
                if ref["feasible"] and not ref["own_feasible"]:
                    res.probe("weighted_constraint_feasible_only_for_non_ascending_assignment")
            if ref["own_optimum"] is not None and ref["own_optimum"] != ref["optimum"]:
                res.probe("weighted_own_model_optimum_worse_than_true_optimum")
        if not ref["feasible"]:
            res.probe("infeasible_constraint")
            if outcome[0] == "exc":
                res.probe("infeasible_refused_with_" + type(outcome[1]).__name__)
    res.nontrivial = 1 if nontrivial else 0
    cm = "default" if plan["copies"] is None else ("n%d" % plan["copies"] if isinstance(plan["copies"], int) else "per_item")
    res.cells.append("|".join([cm, _weights_kind(plan), plan["constraint"]["kind"] if plan["constraint"] else "-",
                               plan["objective"].split(":")[0], s["mode"] + ("+noise" if s.get("x_noise") else ""),
                               s.get("status", s.get("exc", s.get("late", "-")))]))
    return res.finish(tr)


# ---------------------------------------------------------------- shrinking

def shrink_candidates(plan, clause):
    vals = plan["values"]
    n = len(vals)

    def mk(**kw):
        p = dict(plan)
        p.update(kw)
        return p
    if n > 16:
        step = n // 2
        while step >= 4:
            for lo in range(0, n, step):
                hi = min(n, lo + step)
                if hi - lo < n:
                    kw = {"values": vals[:lo] + vals[hi:]}
                    if isinstance(plan["copies"], list):
                        kw["copies"] = plan["copies"][:lo] + plan["copies"][hi:]
                    if plan.get("names"):
                        kw["names"] = plan["names"][:lo] + plan["names"][hi:]
                    yield mk(**kw)
            step //= 2
    if n > 1:
        for i in range(n):
            kw = {"values": vals[:i] + vals[i + 1:]}
            if isinstance(plan["copies"], list):
                kw["copies"] = plan["copies"][:i] + plan["copies"][i + 1:]
            if plan.get("names"):
                kw["names"] = plan["names"][:i] + plan["names"][i + 1:]
            yield mk(**kw)
    if plan["numbins"] > 1:
        kw = {"numbins": plan["numbins"] - 1}
        if plan["weights"] is not None:
            kw["weights"] = plan["weights"][:-1]
        if plan["objective"].startswith("k"):
            kw["objective"] = plan["objective"].split(":")[0] + ":1"
        yield mk(**kw)
    if plan.get("prior"):
        p = mk()
        p.pop("prior")
        yield p
    if plan.get("log"):
        yield mk(log=None)
    if plan["solver"].get("x_noise"):
        yield mk(solver={k: v for k, v in plan["solver"].items() if k != "x_noise"})
    if plan["form"] != "list":
        yield mk(form="list")
    if plan.get("copies_form") not in (None, "list") or plan.get("weights_form") not in (None, "list"):
        yield mk(copies_form="list", weights_form="list")
    if plan["out"] != "PartitionAndSumsTuple":
        yield mk(out="PartitionAndSumsTuple")
    if plan["constraint"] is not None:
        yield mk(constraint=None)
    if plan["weights"] is not None:
        yield mk(weights=None)
        if len(set(plan["weights"])) > 1:
            yield mk(weights=[1] * (plan["numbins"] - 1) + [2])
    if plan["copies"] is not None:
        yield mk(copies=None)
        if isinstance(plan["copies"], list):
            for i, c in enumerate(plan["copies"]):
                if c != 1:
                    yield mk(copies=plan["copies"][:i] + [1] + plan["copies"][i + 1:])
    if plan["time_limit"] is not None and plan["solver"]["mode"] != "sim_timeout":
        yield mk(time_limit=None)
    if plan["objective"] != "diff":
        yield mk(objective="diff")
    for i, v in enumerate(vals):
        for nv in sorted({0, 1, v // 2, v - 1}):
            if 0 <= nv < v:
                yield mk(values=vals[:i] + [nv] + vals[i + 1:])
    if plan["constraint"] is not None:
        c = plan["constraint"]["c"]
        for nc in sorted({0, c // 2, c - 1}):
            if nc != c:
                yield mk(constraint=dict(plan["constraint"], c=nc))


def sample_for_evidence(plan, result):
    return {"run_seed": result["seed"], "plan": plan, "digest": result["digest"]}
