"""
Batch runner: seeded runs on a fork pool, determinism sample, shrinking, replay files,
known findings, evidence, exit codes.

Exit codes: 0 property held on everything explored (KNOWN-FINDING lines possible)
            1 at least one `VIOLATION property=<id> replay=<path>` line
            2 HARNESS-ERROR (never a pass, never a violation)
"""
import concurrent.futures as cf
import hashlib
import importlib
import json
import multiprocessing
import os
import subprocess
import sys
import time as _wall
import traceback

from . import core
from .isolate import call_in_fork, ChildFailure

VERIF_DIR = os.path.dirname(os.path.dirname(os.path.abspath(__file__)))
PROPS = ("C11", "C15", "C16", "C17")


def repo_root():
    return os.path.abspath(os.environ.get("VERIF_REPO", "/repo"))


def import_tree_under_test():
    root = repo_root()
    if sys.path[0] != root:
        sys.path.insert(0, root)
    import prtpy  # noqa
    f = os.path.abspath(prtpy.__file__)
    if not f.startswith(root + os.sep):
        raise RuntimeError(f"prtpy imported from {f}, not from the tree under test {root}")
    return prtpy


def tree_fingerprint():
    root = repo_root()
    h = hashlib.sha256()
    for dp, dn, fn in sorted(os.walk(os.path.join(root, "prtpy"))):
        dn.sort()
        for f in sorted(fn):
            if f.endswith(".py"):
                p = os.path.join(dp, f)
                h.update(os.path.relpath(p, root).encode())
                with open(p, "rb") as fh:
                    h.update(fh.read())
    try:
        head = subprocess.run(["git", "-C", root, "rev-parse", "HEAD"], capture_output=True, text=True, timeout=20).stdout.strip()
    except Exception:
        head = ""
    return {"root": root, "head": head, "sha256_prtpy_py": h.hexdigest()}


def load_prop(prop_id):
    return importlib.import_module("props." + prop_id.lower())


# ------------------------------------------------------------------ code that runs in children

def _silence_fds():
    """CBC prints from C; run children write nothing to the terminal."""
    try:
        dn = os.open(os.devnull, os.O_WRONLY)
        os.dup2(dn, 1)
        os.dup2(dn, 2)
        os.close(dn)
    except OSError:
        pass


def _exec_plan_child(prop_id, plan, seed, want_events):
    _silence_fds()
    prop = load_prop(prop_id)
    res = prop.execute(plan, seed)
    return res.pack(with_plan=True, with_events=want_events)


def _run_seed_child(prop_id, seed, tier):
    _silence_fds()
    prop = load_prop(prop_id)
    plan = prop.gen_plan(seed, tier)
    res = prop.execute(plan, seed)
    return res.pack()


def exec_plan_isolated(prop_id, plan, seed=0, want_events=False, timeout=None):
    prop = load_prop(prop_id)
    return call_in_fork(_exec_plan_child, (prop_id, plan, seed, want_events),
                        timeout=timeout or getattr(prop, "RUN_WALL_WATCHDOG_S", 120.0))


def _work_chunk(prop_id, tier, batch_seed, indices):
    """Pool task: run the given run indices, each in its own forked child."""
    prop = load_prop(prop_id)
    out = []
    for i in indices:
        seed = core.run_seed(batch_seed, prop_id, i)
        try:
            d = call_in_fork(_run_seed_child, (prop_id, seed, tier),
                             timeout=getattr(prop, "RUN_WALL_WATCHDOG_S", 120.0))
            d["index"] = i
        except ChildFailure as e:
            d = {"index": i, "seed": seed, "harness_error": str(e)}
        out.append(d)
    return out


def _shrink_task(prop_id, plan, clause, seed, max_candidates):
    """Pool task: greedy shrinking; every candidate is a fresh isolated execution."""
    prop = load_prop(prop_id)
    tried = 0
    improved = True
    seen = set()
    while improved and tried < max_candidates:
        improved = False
        for cand in prop.shrink_candidates(plan, clause):
            key = core.jdump(cand)
            if key in seen:
                continue
            seen.add(key)
            tried += 1
            if tried > max_candidates:
                break
            try:
                d = exec_plan_isolated(prop_id, cand, seed)
            except ChildFailure:
                continue
            if d.get("invalid_plan"):
                continue
            if any(v["clause"] == clause for v in d["violations"]):
                plan = cand
                improved = True
                break
    return plan, tried


# ------------------------------------------------------------------ known findings

def load_known_findings():
    path = os.path.join(VERIF_DIR, "known_findings.txt")
    entries = []
    if not os.path.exists(path):
        return entries
    for ln in open(path):
        ln = ln.strip()
        if not ln or ln.startswith("#"):
            continue
        if ln.startswith("open:"):
            body = ln[len("open:"):].strip()
            toks = body.split(None, 3)
            try:
                pid = toks[0].split("=", 1)[1]
                clauses = toks[1].split("=", 1)[1].split(",")
                m = toks[2]
                rest = toks[3] if len(toks) > 3 else ""
                assert m.startswith("match=")
                # the match JSON may contain spaces: re-split
                mj_start = body.index("match=") + len("match=")
                dec = json.JSONDecoder()
                match, end = dec.raw_decode(body[mj_start:])
                rest = body[mj_start + end:].strip()
            except Exception as e:
                raise RuntimeError(f"known_findings.txt: cannot parse line: {ln!r} ({e})")
            entries.append({"state": "open", "property": pid, "clauses": clauses, "match": match, "text": rest})
        elif ln.startswith("fixed:"):
            entries.append({"state": "fixed", "text": ln})
    return entries


def match_known(prop, entries, prop_id, clause, plan):
    for e in entries:
        if e["state"] != "open" or e["property"] != prop_id or clause not in e["clauses"]:
            continue
        attrs = prop.plan_attributes(plan) if hasattr(prop, "plan_attributes") else {}
        if all(attrs.get(k) == v for k, v in e["match"].items()):
            return e
    return None


# ------------------------------------------------------------------ replay

def _prepare_parent(prop):
    """Bring the zygote into its final state before anything is forked from it."""
    import gc
    if hasattr(prop, "prepare_parent"):
        prop.prepare_parent()      # e.g. warm up the CBC shared library (not through prtpy)
    gc.collect()
    gc.freeze()                    # children never finalise garbage inherited from the parent


def do_replay(prop_id, path):
    import_tree_under_test()
    prop = load_prop(prop_id)
    _prepare_parent(prop)
    rp = json.load(open(path))
    plan = rp["plan"]
    clause = rp.get("clause")
    try:
        d = exec_plan_isolated(prop_id, plan, rp.get("run_seed", 0), want_events=True)
    except ChildFailure as e:
        print("HARNESS-ERROR: replay child failed:", e)
        return 2
    clauses = [v["clause"] for v in d["violations"]]
    print(f"replay property={prop_id} file={path}")
    print(f"  recorded: clause={clause} digest={rp.get('digest')}")
    print(f"  now:      clauses={clauses} digest={d['digest']}")
    for v in d["violations"][:5]:
        print("  violation:", core.jdump(v)[:1500])
    if clause in clauses or (clause is None and clauses):
        same = (d["digest"] == rp.get("digest"))
        print(f"REPRODUCED clause={clause} digest_equal={same}")
        print(f"VIOLATION property={prop_id} replay={path}")
        return 1
    print("NOT-REPRODUCED (no violation of the recorded clause on this tree)")
    return 0


# ------------------------------------------------------------------ batch

def _pool(jobs):
    ctx = multiprocessing.get_context("fork")
    return cf.ProcessPoolExecutor(max_workers=jobs, mp_context=ctx)


def do_batch(prop_id, tier, batch_seed, jobs, runs_override=None, budget_override=None,
             digests_only=None, quiet=False):
    t_start = _wall.monotonic()
    prtpy = import_tree_under_test()
    from . import refmodels
    refmodels.self_check()
    prop = load_prop(prop_id)
    cfg = dict(prop.TIERS[tier])
    if runs_override:
        cfg["runs"] = runs_override
    if budget_override:
        cfg["wall_cap_s"] = budget_override
    _prepare_parent(prop)
    runs = cfg["runs"]
    chunk = cfg.get("chunk", 4)
    wall_cap = cfg.get("wall_cap_s", 3600)

    indices = list(range(runs)) if digests_only is None else list(digests_only)
    chunks = [indices[i:i + chunk] for i in range(0, len(indices), chunk)]

    results = {}
    harness_errors = []
    truncated = False
    with _pool(jobs) as pool:
        futs = {pool.submit(_work_chunk, prop_id, tier, batch_seed, c): c for c in chunks}
        pending = set(futs)
        while pending:
            done, pending = cf.wait(pending, timeout=2.0, return_when=cf.FIRST_COMPLETED)
            for f in done:
                try:
                    for d in f.result():
                        if "harness_error" in d:
                            harness_errors.append(d)
                        else:
                            results[d["index"]] = d
                except cf.CancelledError:
                    pass
                except Exception:
                    harness_errors.append({"index": futs[f][0], "harness_error": "pool task failed:\n" + traceback.format_exc()})
            if _wall.monotonic() - t_start > wall_cap and pending:
                truncated = True
                for f in pending:
                    f.cancel()
        if digests_only is not None:
            for i in indices:
                if i in results:
                    print(f"DIGEST {i} {results[i]['digest']}")
            return 2 if harness_errors else 0

        # ---- determinism sample: same run-seed again, later, in whatever worker is free
        done_idx = sorted(results)
        nsample = max(cfg.get("det_sample_min", 8), int(len(done_idx) * cfg.get("det_sample_frac", 0.01)))
        step = max(1, len(done_idx) // max(nsample, 1))
        sample = done_idx[::step][:nsample] if done_idx else []
        det = {"sampled": len(sample), "mismatches": 0, "fresh_interpreter": None}
        mismatch = []
        if sample:
            futs2 = [pool.submit(_work_chunk, prop_id, tier, batch_seed, [i]) for i in sample]
            for f in futs2:
                for d in f.result():
                    if "harness_error" in d:
                        harness_errors.append(d)
                    elif d["digest"] != results[d["index"]]["digest"]:
                        mismatch.append(d["index"])
        det["mismatches"] = len(mismatch)

        # ---- violations: known findings first, then shrink + replay file
        known = load_known_findings()
        viols = []       # (index, clause, detail, plan, seed)
        for i in done_idx:
            d = results[i]
            for v in d["violations"]:
                viols.append((i, v["clause"], v["detail"], d["plan"], d["seed"]))
        known_hits = {}
        new_viols = []
        for (i, clause, detail, plan, seed) in viols:
            e = match_known(prop, known, prop_id, clause, plan)
            if e is not None:
                k = e["text"]
                known_hits.setdefault(k, {"entry": e, "count": 0, "first": {"index": i, "clause": clause}})
                known_hits[k]["count"] += 1
            else:
                new_viols.append((i, clause, detail, plan, seed))
        # one report per distinct clause (smallest plan first), at most MAX_REPORTS
        by_clause = {}
        for v in new_viols:
            by_clause.setdefault(v[1], []).append(v)
        reports = []
        max_reports = cfg.get("max_reports", 3)
        shr_futs = []
        for clause in sorted(by_clause):
            if len(shr_futs) >= max_reports:
                break
            cands = sorted(by_clause[clause], key=lambda v: (len(core.jdump(v[3])), v[0]))
            (i, clause, detail, plan, seed) = cands[0]
            shr_futs.append((i, clause, detail, plan, seed,
                             pool.submit(_shrink_task, prop_id, plan, clause, seed, cfg.get("shrink_candidates", 300))))
        for (i, clause, detail, plan, seed, f) in shr_futs:
            try:
                small, tried = f.result()
            except Exception:
                small, tried = plan, 0
            reports.append({"index": i, "clause": clause, "plan": small, "orig_plan": plan, "seed": seed, "shrink_tried": tried})

    # ---- thorough: the same sample in a fresh interpreter, other hash seed, other worker count
    if cfg.get("fresh_interpreter_check") and sample and not os.environ.get("VERIF_NO_REEXEC"):
        env = dict(os.environ)
        env["PYTHONHASHSEED"] = "12345"
        env["VERIF_NO_REEXEC"] = "1"
        sub = sample[:cfg.get("fresh_sample", 24)]
        cmd = [sys.executable, os.path.join(VERIF_DIR, "dsim", "main.py"), prop_id, "--tier", tier,
               "--seed", str(batch_seed), "--jobs", "3", "--digests", ",".join(map(str, sub))]
        try:
            p = subprocess.run(cmd, env=env, capture_output=True, text=True, timeout=1800)
            got = {}
            for ln in p.stdout.splitlines():
                if ln.startswith("DIGEST "):
                    _, i, dg = ln.split()
                    got[int(i)] = dg
            bad = [i for i in sub if got.get(i) != results[i]["digest"]]
            det["fresh_interpreter"] = {"sampled": len(sub), "mismatches": len(bad), "hashseed": 12345, "jobs": 3}
            if bad:
                mismatch.extend(bad)
        except Exception as e:
            harness_errors.append({"index": -1, "harness_error": f"fresh-interpreter determinism check failed to run: {e!r}"})

    # ---- write replay files, verify each in a fresh process
    exit_code = 0
    lines = []
    os.makedirs(os.path.join(VERIF_DIR, "replays", prop_id), exist_ok=True)
    fp = tree_fingerprint()
    confirmed = 0
    for rep in reports:
        try:
            d = exec_plan_isolated(prop_id, rep["plan"], rep["seed"], want_events=True)
        except ChildFailure as e:
            harness_errors.append({"index": rep["index"], "harness_error": "re-executing minimised plan: " + str(e)})
            continue
        vs = [v for v in d["violations"] if v["clause"] == rep["clause"]]
        if not vs:
            harness_errors.append({"index": rep["index"], "harness_error": f"minimised plan for clause {rep['clause']} did not reproduce in the parent"})
            continue
        path = os.path.join(VERIF_DIR, "replays", prop_id, f"{rep['clause']}-{rep['seed']:016x}.json")
        with open(path, "w") as fh:
            json.dump({"property": prop_id, "clause": rep["clause"], "detail": vs[0]["detail"],
                       "plan": rep["plan"], "run_seed": rep["seed"], "batch_seed": batch_seed, "run_index": rep["index"],
                       "tier": tier, "digest": d["digest"], "tree": fp, "shrink_candidates_tried": rep["shrink_tried"],
                       "original_plan": rep["orig_plan"], "events": d.get("events_head", []),
                       "how_to_replay": f"./check {prop_id} --replay {path}"}, fh, indent=1, sort_keys=True)
        env = dict(os.environ)
        env["VERIF_NO_REEXEC"] = "1"
        p = subprocess.run([sys.executable, os.path.join(VERIF_DIR, "dsim", "main.py"), prop_id, "--replay", path],
                           env=env, capture_output=True, text=True, timeout=1200)
        ok = p.returncode == 1 and "REPRODUCED clause=" in p.stdout and "digest_equal=True" in p.stdout
        if not ok:
            harness_errors.append({"index": rep["index"], "harness_error": f"replay file {path} did not reproduce exactly in a fresh process (rc={p.returncode})\n{p.stdout[-2000:]}"})
            continue
        confirmed += 1
        lines.append(f"VIOLATION property={prop_id} replay={path}")
        lines.append(f"  clause={rep['clause']} run_seed={rep['seed']} detail={core.jdump(vs[0]['detail'])[:600]}")
        exit_code = 1

    for k, kh in known_hits.items():
        lines.append(f"KNOWN-FINDING: property={prop_id} {kh['entry']['text']} [clauses {','.join(kh['entry']['clauses'])}; seen {kh['count']}x in this run]")

    if mismatch:
        harness_errors.append({"index": mismatch[0], "harness_error": f"nondeterministic digests for run indices {sorted(set(mismatch))[:10]}"})
    if hasattr(prop, "batch_harness_errors"):
        for msg in prop.batch_harness_errors(results):
            harness_errors.append({"index": -1, "harness_error": msg})

    # ---- evidence
    wall = _wall.monotonic() - t_start
    ev = build_evidence(prop, prop_id, tier, batch_seed, cfg, results, wall, jobs, det, truncated,
                        known_hits, len(new_viols), confirmed, harness_errors, fp)
    os.makedirs(os.path.join(VERIF_DIR, "evidence"), exist_ok=True)
    with open(os.path.join(VERIF_DIR, "evidence", prop_id + ".json"), "w") as fh:
        json.dump(ev, fh, indent=1, sort_keys=True)

    for ln in lines:
        print(ln)
    if harness_errors:
        for he in harness_errors[:5]:
            print(f"HARNESS-ERROR: property={prop_id} run_index={he.get('index')} {he['harness_error'][:3000]}")
        if exit_code == 0:
            exit_code = 2
    if not quiet:
        c = ev["coverage"]
        print(f"{prop_id} tier={tier} seed={batch_seed} runs={c['runs']} evaluations={c['evaluations']} "
              f"distinct_nontrivial={c['distinct_nontrivial']} violations={ev['violations']} "
              f"known_findings={len(known_hits)} wall={wall:.1f}s exit={exit_code}")
    return exit_code


def _merge(dst, src):
    for k, v in src.items():
        dst[k] = dst.get(k, 0) + v


def build_evidence(prop, prop_id, tier, batch_seed, cfg, results, wall, jobs, det, truncated,
                   known_hits, n_new_viols, confirmed, harness_errors, fp):
    faults, probes, notes = {}, {}, {}
    cells = set()
    measures = {}
    evaluations = 0
    inst = {}
    sim_seconds = 0.0
    discarded = {}
    nevents = 0
    digests = set()
    for i in sorted(results):
        d = results[i]
        _merge(faults, d["faults"])
        _merge(probes, d["probes"])
        _merge(notes, d["notes"])
        for c in d["cells"]:
            if c.startswith("@"):
                name, _, key = c[1:].partition(":")
                measures.setdefault(name, set()).add(key)
            else:
                cells.add(c)
        evaluations += d["evaluations"]
        sim_seconds += d["sim_seconds"]
        nevents += d["nevents"]
        digests.add(d["digest"])
        if d["discarded"]:
            discarded[d["discarded"]] = discarded.get(d["discarded"], 0) + 1
        k = d["instance_key"] if d["instance_key"] is not None else d["digest"]
        if k not in inst:
            inst[k] = d["nontrivial"]
    distinct_nontrivial = sum(inst.values())
    idx = sorted(results)
    samples = []
    if hasattr(prop, "sample_for_evidence"):
        for i in idx[:3]:
            seed = results[i]["seed"]
            try:
                samples.append(prop.sample_for_evidence(prop.gen_plan(seed, tier), results[i]))
            except Exception as e:      # never let evidence formatting decide anything
                samples.append({"run_seed": seed, "error": repr(e)})
    runs = len(results)
    rate = runs / wall * 3600 if wall > 0 else 0
    cov = {
        "evaluations": int(evaluations),
        "distinct_nontrivial": int(distinct_nontrivial),
        "rule": prop.RULE,
        "samples": samples,
        "exhaustive": False,
        "runs": runs,
        "runs_requested": cfg["runs"],
        "truncated_by_wall_cap": truncated,
        "run_seeds": {"derivation": "run_seed(i) = first 8 bytes of sha256(json(['run', VERIF_SEED, property, i]))",
                      "first": results[idx[0]]["seed"] if idx else None,
                      "last": results[idx[-1]]["seed"] if idx else None, "indices": [idx[0], idx[-1]] if idx else []},
        "runs_per_hour": int(rate),
        "evaluations_per_hour": int(evaluations / wall * 3600) if wall > 0 else 0,
        "simulated_seconds_covered": sim_seconds,
        "trace_events": nevents,
        "distinct_run_digests": len(digests),
        "distinct_instances": len(inst),
        "faults_fired": dict(sorted(faults.items())),
        "probes": dict(sorted(probes.items())),
        "notes": dict(sorted(notes.items())),
        "coverage_cells_reached": len(cells),
        "coverage_cells_sample": sorted(cells)[:40],
        "discarded_runs": discarded,
        "determinism": det,
        "components": prop.COMPONENTS,
        "jobs": jobs,
        "known_findings_seen": {k: v["count"] for k, v in known_hits.items()},
        "violations_unlisted_raw": n_new_viols,
        "harness_errors": len(harness_errors),
        "tree": fp,
    }
    for name, keys in measures.items():
        cov[getattr(prop, "MEASURES", {}).get(name, "distinct_" + name)] = len(keys)
    if hasattr(prop, "extra_coverage"):
        try:
            cov.update(prop.extra_coverage(results, cfg))
        except Exception as e:
            cov["extra_coverage_error"] = repr(e)
    return {
        "property_id": prop_id,
        "tier": tier,
        "seed": int(batch_seed),
        "level": prop.LEVEL,
        "coverage": cov,
        "assumptions": prop.ASSUMPTIONS,
        "wall_s": round(wall, 2),
        "violations": int(confirmed),
    }
