"""
dsim core: seeds, canonicalisation, event trace + digest, result record.

Nothing in this file draws randomness except through `rng(seed, label)`, reads a wall
clock, or depends on hash/iteration order of str-keyed sets.
"""
import hashlib
import json
import math
import random

try:
    import numpy as _np
except Exception:  # pragma: no cover
    _np = None


# ---------------------------------------------------------------- seeds

def H(*parts) -> int:
    """64-bit hash of a JSON-able tuple; the only way seeds are derived."""
    data = json.dumps(parts, sort_keys=True, separators=(",", ":"), default=str).encode()
    return int.from_bytes(hashlib.sha256(data).digest()[:8], "big")


def rng(seed: int, label: str) -> random.Random:
    """An independent PRNG stream for (seed, label)."""
    return random.Random(H(seed, label))


def run_seed(batch_seed: int, prop: str, index: int) -> int:
    return H("run", int(batch_seed), prop, int(index))


# ---------------------------------------------------------------- canonical form

class InjectedFault(Exception):
    """Raised by simulated components (valueof, solver) when a fault fires."""


class StepBudgetExceeded(BaseException):
    """Deterministic step cap (clock readings / valueof calls). BaseException on purpose:
    the code under test must not be able to swallow it with `except Exception`."""


def canon(x):
    """Canonical plain-JSON form of anything prtpy returns or raises."""
    if x is None or isinstance(x, (bool, str)):
        return x
    if isinstance(x, int):
        return x
    if isinstance(x, float):
        if math.isnan(x):
            return {"f": "nan"}
        if math.isinf(x):
            return {"f": "inf" if x > 0 else "-inf"}
        return x
    if _np is not None:
        if isinstance(x, _np.generic):
            return {"np": type(x).__name__, "v": canon(x.item())}
        if isinstance(x, _np.ndarray):
            return {"nd": str(x.dtype), "v": [canon(v) for v in x.tolist()]}
    if isinstance(x, BaseException):
        return {"exc": type(x).__name__}
    if isinstance(x, tuple):
        return {"t": [canon(v) for v in x]}
    if isinstance(x, list):
        return [canon(v) for v in x]
    if isinstance(x, dict):
        return {"d": [[canon(k), canon(v)] for k, v in x.items()]}
    if hasattr(x, "sums") and hasattr(x, "lists"):   # PartitionAndSums.Struct
        return {"struct": {"sums": canon(x.sums), "lists": canon(x.lists)}}
    if isinstance(x, (set, frozenset)):
        return {"set": sorted((canon(v) for v in x), key=lambda v: json.dumps(v, sort_keys=True))}
    try:
        return {"iter": type(x).__name__, "v": [canon(v) for v in x]}
    except TypeError:
        return {"obj": type(x).__name__}


def plain(x):
    """Lossy plain-python form (numpy -> python numbers/lists) used by oracles."""
    if _np is not None:
        if isinstance(x, _np.generic):
            return x.item()
        if isinstance(x, _np.ndarray):
            return [plain(v) for v in x.tolist()]
    if isinstance(x, (list, tuple)):
        return [plain(v) for v in x]
    return x


def jdump(x) -> str:
    return json.dumps(x, sort_keys=True, separators=(",", ":"))


# ---------------------------------------------------------------- trace

class Trace:
    """Append-only event log of one simulated run. The digest is over the whole log."""

    def __init__(self, keep: int = 400):
        self._h = hashlib.sha256()
        self.n = 0
        self.keep = keep
        self.head = []      # first `keep` events verbatim (for replay files / samples)

    def add(self, kind: str, **payload):
        ev = {"seq": self.n, "kind": kind}
        ev.update(payload)
        line = jdump(ev)
        self._h.update(line.encode())
        self._h.update(b"\n")
        if self.n < self.keep:
            self.head.append(ev)
        self.n += 1

    def digest(self) -> str:
        return self._h.hexdigest()


class Result:
    """What one simulated run reports back to the runner (picklable, small)."""

    def __init__(self, seed, plan):
        self.seed = seed
        self.plan = plan
        self.digest = None
        self.nevents = 0
        self.violations = []          # [{"clause":..., "detail":{...}}]
        self.evaluations = 0          # executions of real code judged by the oracle
        self.nontrivial = 0           # ... that were non-trivial by the property's rule
        self.instance_key = None      # hash identifying the generated case (dedup across runs)
        self.faults = {}              # fault kind -> times it actually fired
        self.probes = {}              # rare-condition probe -> count
        self.cells = []               # coverage cells reached (strings)
        self.sim_seconds = 0.0
        self.discarded = None         # reason, when the run was over budget
        self.notes = {}               # free-form counters (e.g. solver_fault_natural)
        self.events_head = []

    def violate(self, clause, **detail):
        self.violations.append({"clause": clause, "detail": detail})

    def fault(self, kind, n=1):
        self.faults[kind] = self.faults.get(kind, 0) + n

    def probe(self, name, n=1):
        self.probes[name] = self.probes.get(name, 0) + n

    def note(self, name, n=1):
        self.notes[name] = self.notes.get(name, 0) + n

    def finish(self, trace: Trace):
        self.digest = trace.digest()
        self.nevents = trace.n
        self.events_head = trace.head
        return self

    def pack(self, with_plan=False, with_events=False):
        d = {
            "seed": self.seed, "digest": self.digest, "nevents": self.nevents,
            "violations": self.violations, "evaluations": self.evaluations,
            "nontrivial": self.nontrivial, "instance_key": self.instance_key,
            "faults": self.faults, "probes": self.probes, "cells": self.cells,
            "sim_seconds": self.sim_seconds, "discarded": self.discarded, "notes": self.notes,
        }
        if with_plan or self.violations:
            d["plan"] = self.plan
        if with_events:
            d["events_head"] = self.events_head
        return d
