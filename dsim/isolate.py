"""
Process isolation: every simulated run (and every fresh-state reference call) executes in a
child forked from a process that has imported the tree under test but never called it.

The wall-clock timeout here exists only to turn a hang into a HARNESS-ERROR; it never
produces a pass and never decides anything inside a run.
"""
import os
import pickle
import select
import signal
import sys
import time as _wall
import traceback


class ChildFailure(Exception):
    """The forked child died, hung, or raised outside the code under test (harness problem)."""


def call_in_fork(fn, args=(), timeout=120.0):
    """Run fn(*args) in a forked child, return its (picklable) result.

    Raises ChildFailure on harness exceptions, non-zero exits, or timeouts.
    """
    r, w = os.pipe()
    sys.stdout.flush()
    sys.stderr.flush()
    pid = os.fork()
    if pid == 0:
        code = 0
        try:
            os.close(r)
            try:
                res = ("ok", fn(*args))
            except BaseException:
                res = ("harness-exc", traceback.format_exc())
            data = pickle.dumps(res, protocol=pickle.HIGHEST_PROTOCOL)
            off = 0
            while off < len(data):
                off += os.write(w, data[off:off + (1 << 16)])
            os.close(w)
        except BaseException:
            code = 3
        finally:
            os._exit(code)
    os.close(w)
    chunks = []
    deadline = _wall.monotonic() + timeout
    timed_out = False
    try:
        while True:
            left = deadline - _wall.monotonic()
            if left <= 0:
                timed_out = True
                break
            ready, _, _ = select.select([r], [], [], min(left, 5.0))
            if not ready:
                continue
            b = os.read(r, 1 << 16)
            if not b:
                break
            chunks.append(b)
    finally:
        os.close(r)
    if timed_out:
        try:
            os.kill(pid, signal.SIGKILL)
        except ProcessLookupError:
            pass
        os.waitpid(pid, 0)
        raise ChildFailure(f"child exceeded the {timeout:.0f}s wall watchdog (hang)")
    _, status = os.waitpid(pid, 0)
    if not chunks:
        raise ChildFailure(f"child produced no result (wait status {status})")
    try:
        kind, val = pickle.loads(b"".join(chunks))
    except Exception as e:
        raise ChildFailure(f"child result unreadable: {e!r} (wait status {status})")
    if kind != "ok":
        raise ChildFailure("exception in harness code inside child:\n" + val)
    return val
