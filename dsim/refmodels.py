"""
Reference models. This file imports neither prtpy nor mip: everything here is re-derived
from the documented meaning of the operations, so it can serve as an oracle.
"""
import itertools
import math
from collections import Counter

INF = float("inf")


# ---------------------------------------------------------------- objectives

def objective_value(objective: str, sums) -> float:
    """The quantity each built-in objective minimises, from its documented definition."""
    s = sorted(sums)
    if objective == "diff":
        return s[-1] - s[0]
    if objective == "max":
        return s[-1]
    if objective == "min":
        return -s[0]
    if objective.startswith("kmin:"):
        m = int(objective.split(":")[1])
        return -sum(s[:m])
    if objective.startswith("kmax:"):
        m = int(objective.split(":")[1])
        return sum(s[len(s) - m:]) if m > 0 else 0
    raise ValueError(objective)


# ---------------------------------------------------------------- reachable sum vectors

def reachable_sorted(values, k):
    """All sorted sum vectors obtainable by putting each value in exactly one of k bins."""
    states = {tuple([0] * k)}
    for v in values:
        nxt = set()
        for s in states:
            prev = None
            for i in range(k):
                if s[i] == prev:
                    continue
                prev = s[i]
                t = list(s)
                t[i] += v
                t.sort()
                nxt.add(tuple(t))
        states = nxt
    return states


def _placements(c, k):
    """All ways to distribute c identical copies over k bins."""
    if k == 1:
        yield (c,)
        return
    for first in range(c + 1):
        for rest in _placements(c - first, k - 1):
            yield (first,) + rest


def reachable_ordered(values, copies, k):
    """All *ordered* sum vectors (bin identity kept) placing value i exactly copies[i] times."""
    states = {tuple([0] * k)}
    for v, c in zip(values, copies):
        pls = list(_placements(c, k))
        nxt = set()
        for s in states:
            for p in pls:
                nxt.add(tuple(s[i] + p[i] * v for i in range(k)))
        states = nxt
    return states


def reachable_sorted_copies(values, copies, k):
    """Sorted sum vectors placing value i exactly copies[i] times (bins interchangeable)."""
    states = {tuple([0] * k)}
    for v, c in zip(values, copies):
        pls = list(_placements(c, k))
        nxt = set()
        for s in states:
            for p in pls:
                nxt.add(tuple(sorted(s[i] + p[i] * v for i in range(k))))
        states = nxt
    return states


def optimum(objective, vectors) -> float:
    return min(objective_value(objective, v) for v in vectors)


def naive_reachable_sorted(values, k):
    out = set()
    for assign in itertools.product(range(k), repeat=len(values)):
        s = [0] * k
        for v, b in zip(values, assign):
            s[b] += v
        out.add(tuple(sorted(s)))
    return out


# ---------------------------------------------------------------- two-way with cardinality bound

def two_way_optimum(values, bound=None) -> float:
    """Smallest |sum(A)-sum(B)| over 2-way partitions with ||A|-|B|| <= bound (None: unbounded)."""
    n = len(values)
    total = sum(values)
    best = INF
    for mask in range(1 << max(n - 1, 0)) if n > 0 else [0]:
        cnt = bin(mask).count("1")
        if bound is not None and abs(n - 2 * cnt) > bound:
            continue
        s = 0
        m = mask
        i = 0
        while m:
            if m & 1:
                s += values[i]
            m >>= 1
            i += 1
        d = abs(total - 2 * s)
        if d < best:
            best = d
    return best


# ---------------------------------------------------------------- LPT

def lpt_sums(values, k):
    """Sorted sum vector of the greedy / LPT schedule (independent of tie-breaking)."""
    sums = [0] * k
    for v in sorted(values, reverse=True):
        i = min(range(k), key=sums.__getitem__)
        sums[i] += v
    return sorted(sums)


# ---------------------------------------------------------------- partition validator

def _is_seq(x):
    return hasattr(x, "__len__") and hasattr(x, "__getitem__") and not isinstance(x, (str, bytes, dict))


def validate_partition(result, items, k, value_of, kind):
    """Judge a value returned by a partitioner called directly with a bins-manager.

    result  : plain-python form (numpy already converted to lists/numbers)
    items   : the input items (hashable: ints or names)
    value_of: dict item->value, or None for identity
    kind    : "contents" -> (sums, lists) expected; "sums" -> sum vector expected;
              "either"  -> whichever shape it has.
    Returns (clause | None, detail, sums | None):
      clause None             -> complete valid partition, sums = its true sums
      clause "no-solution"    -> explicit no-solution-yet (None, or non-finite reported sums)
      other clause            -> violation ("malformed" / "incomplete" / "sums-mismatch")
    """
    val = (lambda x: x) if value_of is None else value_of.__getitem__
    if result is None:
        return "no-solution", {}, None
    if not _is_seq(result):
        return "malformed", {"why": "not a sequence", "type": type(result).__name__}, None
    has_lists = (len(result) == 2 and _is_seq(result[0]) and _is_seq(result[1])
                 and all(_is_seq(b) for b in result[1]))
    if kind == "contents" and not has_lists:
        return "malformed", {"why": "expected (sums, lists)"}, None
    if kind == "sums" and has_lists:
        return "malformed", {"why": "expected a sum vector"}, None
    if has_lists:
        sums, lists = result[0], result[1]
        try:
            fin = all(isinstance(s, (int, float)) and math.isfinite(s) for s in sums)
        except TypeError:
            return "malformed", {"why": "sums not numeric"}, None
        if not fin:
            # explicit placeholder such as ([0,inf],[0,inf]): reported sums are not all finite
            return "no-solution", {"placeholder": True}, None
        if len(sums) != k or len(lists) != k:
            return "malformed", {"why": "wrong number of bins", "got": [len(sums), len(lists)], "want": k}, None
        got = Counter()
        for b in lists:
            for it in b:
                try:
                    got[it] += 1
                except TypeError:
                    return "malformed", {"why": "unhashable item in bin"}, None
        want = Counter(items)
        if got != want:
            missing = list((want - got).elements())[:5]
            extra = list((got - want).elements())[:5]
            return "incomplete", {"missing": missing, "extra": extra}, None
        true = [sum(val(it) for it in b) for b in lists]
        if any(float(a) != float(b) for a, b in zip(sums, true)):
            return "sums-mismatch", {"reported": list(sums), "contents_total": true}, None
        return None, {}, true
    # sum vector only
    sums = result
    try:
        fin = all(isinstance(s, (int, float)) and math.isfinite(s) for s in sums)
    except TypeError:
        return "malformed", {"why": "sums not numeric"}, None
    if not fin:
        return "no-solution", {"placeholder": True}, None
    if len(sums) != k:
        return "malformed", {"why": "wrong number of bins", "got": len(sums), "want": k}, None
    total = sum(val(it) for it in items)
    if float(sum(sums)) != float(total) or any(s < 0 for s in sums):
        return "incomplete", {"reported_total": sum(sums), "items_total": total}, None
    return None, {}, [float(s) for s in sums]


# ---------------------------------------------------------------- bins-array model (C16)

class BinsModel:
    """A bins-array as the documentation describes it: a list of bins, each a list of items."""

    def __init__(self, nbins=0, bins=None):
        self.bins = [list(b) for b in bins] if bins is not None else [[] for _ in range(nbins)]

    def copy(self):
        return BinsModel(bins=self.bins)

    def add(self, item, idx):
        self.bins[idx].append(item)          # python indexing: negative indices allowed

    def sort(self, values):
        self.bins.sort(key=lambda b: sum(values[i] for i in b))     # any stable/unstable order accepted by oracle

    def add_empty(self, n):
        return BinsModel(bins=self.bins + [[] for _ in range(n)])

    def remove(self, n):
        return BinsModel(bins=self.bins[:len(self.bins) - n])

    def concat(self, other):
        return BinsModel(bins=self.bins + other.bins)

    def combine(self, i, other, j):
        self.bins[i] = self.bins[i] + list(other.bins[j])

    def sums(self, values):
        return [sum(values[i] for i in b) for b in self.bins]


# ---------------------------------------------------------------- start-up self-check

def self_check():
    """Cross-check the reference models against naive definitions on a fixed corpus."""
    corpus = [([3, 1, 4, 1, 5], 2), ([9, 2, 6, 5, 3, 5], 3), ([0, 0, 7], 3), ([8, 7, 6, 5, 4], 4),
              ([1], 3), ([2, 2, 2, 2], 2), ([10, 0, 3], 1)]
    for vals, k in corpus:
        a = reachable_sorted(vals, k)
        b = naive_reachable_sorted(vals, k)
        if a != b:
            raise AssertionError(f"reachable_sorted disagrees with naive enumeration on {vals},{k}")
        c = reachable_sorted_copies(vals, [1] * len(vals), k)
        if c != b:
            raise AssertionError(f"reachable_ordered disagrees with naive enumeration on {vals},{k}")
        if objective_value("max", lpt_sums(vals, k)) < optimum("max", a):
            raise AssertionError("lpt better than optimum?")
        if k == 2:
            if two_way_optimum(vals, None) != optimum("diff", a):
                raise AssertionError(f"two_way_optimum disagrees on {vals}")
    # copies: 2 copies of x is the same as listing x twice
    if reachable_sorted_copies([5, 3], [2, 1], 2) != naive_reachable_sorted([5, 5, 3], 2):
        raise AssertionError("copies model wrong")
    if {tuple(sorted(x)) for x in reachable_ordered([5, 3, 9], [2, 0, 1], 3)} != naive_reachable_sorted([5, 5, 9], 3):
        raise AssertionError("ordered copies model wrong")
    if two_way_optimum([8, 7, 6, 5, 4], 1) != 0 or two_way_optimum([4, 1, 1, 1, 1], 1) != 2:
        raise AssertionError("two_way_optimum with bound wrong")
    if lpt_sums([4, 5, 6, 7, 8], 2) != [13, 17]:
        raise AssertionError("lpt wrong")
    v = objective_value
    s = [1, 2, 3, 4, 5]
    if [v("min", s), v("kmin:2", s), v("max", s), v("kmax:2", s), v("diff", s)] != [-1, -3, 5, 9, 4]:
        raise AssertionError("objective definitions wrong")
    return True
