"""
The seams the simulator owns: clock, caller-supplied valueof, external solver.

No source change in the tree under test is needed:
 * clock  - prtpy modules read the clock through their module attribute `time`
            (complete_greedy.py, cbldm.py). install_clock() replaces, in every loaded
            prtpy.* module, each global that *is* the `time` module (or a builtin taken from
            it, so `from time import perf_counter` is caught as well) by the simulated one,
            and additionally routes calls to the real time.* functions that come from a
            prtpy frame (function-level imports) to the simulated clock.
 * valueof - FaultyValueOf is simply passed as the callable.
 * solver - class-level patch of mip.Model.optimize (see SimSolver).
"""
import random
import sys
import time as _real_time
import types

from .core import InjectedFault, StepBudgetExceeded

_CLOCK_FUNCS = ("perf_counter", "monotonic", "time", "process_time")
_CLOCK_FUNCS_NS = ("perf_counter_ns", "monotonic_ns", "time_ns", "process_time_ns")
_REAL = {n: getattr(_real_time, n) for n in _CLOCK_FUNCS + _CLOCK_FUNCS_NS + ("sleep",)}


class SimClock:
    """A deterministic monotone clock standing in for the `time` module.

    schedule: {"kind":"uniform","t0":x,"tick":d}
              {"kind":"incs","t0":x,"incs":[...],"tick":d}        explicit increments, then tick
              {"kind":"jitter","t0":x,"seed":s,"choices":[...]}   increments drawn from a PRNG
              + optional "jump":{"at":i,"by":d}   one forward jump before reading i
    Reading i (0-based, counted over the lifetime of the clock) returns
    t0 + sum of the first i increments (+ jump when i >= at).
    """

    def __init__(self, schedule, max_reads=10 ** 7):
        self.schedule = schedule
        self.max_reads = max_reads
        self.reset()

    def reset(self):
        s = self.schedule
        self.reads = 0
        self.now = float(s.get("t0", 0.0))
        self.first = self.now
        self._rng = random.Random(s["seed"]) if s["kind"] == "jitter" else None
        self.log = None      # optional list of readings (filled when not None)
        self.interrupt_at = None
        self.interrupts_fired = 0

    def _advance(self):
        s = self.schedule
        i = self.reads      # increment leading to reading i (i >= 1)
        kind = s["kind"]
        if kind == "uniform":
            inc = s["tick"]
        elif kind == "incs":
            incs = s["incs"]
            inc = incs[i - 1] if i - 1 < len(incs) else s.get("tick", 1.0)
        elif kind == "jitter":
            inc = self._rng.choice(s["choices"])
        else:
            raise ValueError("unknown clock schedule " + repr(kind))
        j = s.get("jump")
        if j and j["at"] == i:
            inc += j["by"]
        self.now += inc

    def read(self):
        if self.reads >= self.max_reads:
            raise StepBudgetExceeded("clock readings")
        if self.interrupt_at is not None and self.reads >= self.interrupt_at:
            # the user's interrupt (SIGINT) is delivered while the algorithm is at this clock reading
            self.interrupt_at = None
            self.interrupts_fired += 1
            raise KeyboardInterrupt("simulated interrupt at clock reading %d" % self.reads)
        if self.reads > 0:
            self._advance()
        self.reads += 1
        if self.log is not None:
            self.log.append(self.now)
        return self.now

    # the `time` module interface
    def perf_counter(self): return self.read()
    def monotonic(self): return self.read()
    def time(self): return self.read()
    def process_time(self): return self.read()
    def perf_counter_ns(self): return int(self.read() * 1e9)
    def monotonic_ns(self): return int(self.read() * 1e9)
    def time_ns(self): return int(self.read() * 1e9)
    def process_time_ns(self): return int(self.read() * 1e9)
    def sleep(self, s): self.now += max(0.0, float(s))

    def __getattr__(self, name):          # anything else (strftime, ...) -> real module
        return getattr(_real_time, name)

    @property
    def elapsed(self):
        return self.now - self.first


class ClockSeam:
    """Installs one SimClock into the tree under test (in this process) and can swap it."""

    def __init__(self, package="prtpy"):
        self.package = package
        self.clock = None
        self.patched = []          # (module name, global name) pairs that were redirected
        self._installed = False

    def _in_pkg(self, modname):
        return modname == self.package or modname.startswith(self.package + ".")

    def install(self):
        if self._installed:
            return
        seam = self

        class _Proxy:
            """Stands for the `time` module inside prtpy modules; forwards to the current SimClock."""
            def __getattr__(self, name):
                return getattr(seam.clock, name)
        proxy = _Proxy()
        self.proxy = proxy

        def bound(name):
            def f(*a, **k):
                return getattr(seam.clock, name)(*a, **k)
            f.__name__ = name
            return f

        real_builtin = {id(fn): n for n, fn in _REAL.items()}
        for modname, mod in list(sys.modules.items()):
            if mod is None or not self._in_pkg(modname):
                continue
            g = getattr(mod, "__dict__", None)
            if not g:
                continue
            for gname, val in list(g.items()):
                if val is _real_time:
                    g[gname] = proxy
                    self.patched.append((modname, gname))
                elif isinstance(val, types.BuiltinFunctionType) and id(val) in real_builtin:
                    g[gname] = bound(real_builtin[id(val)])
                    self.patched.append((modname, gname))

        # function-level `import time` / `time.perf_counter()` from a prtpy frame
        def dispatcher(name):
            real = _REAL[name]

            def f(*a, **k):
                try:
                    caller = sys._getframe(1).f_globals.get("__name__", "")
                except Exception:
                    caller = ""
                if seam.clock is not None and seam._in_pkg(caller):
                    return getattr(seam.clock, name)(*a, **k)
                return real(*a, **k)
            f.__name__ = name
            return f
        for n in _CLOCK_FUNCS + _CLOCK_FUNCS_NS + ("sleep",):
            setattr(_real_time, n, dispatcher(n))
        # `timeit.default_timer` is the builtin perf_counter bound at import time of timeit
        try:
            import timeit
            timeit.default_timer = getattr(_real_time, "perf_counter")
        except Exception:
            pass
        self._installed = True

    def use(self, clock: SimClock):
        self.clock = clock
        return clock


class AsyncInterrupt:
    """The user's interrupt (SIGINT) arriving at an ARBITRARY instant of a call, not only where the library touches a
    seam: the lines executed in the tree under test are counted with sys.settrace, and at the n-th one
    KeyboardInterrupt is raised from the trace function, i.e. inside the traced frame - exactly where CPython would
    deliver a real signal between two bytecodes. With fire_at=None the lines are only counted (measuring run)."""

    def __init__(self, root, fire_at=None, max_lines=5 * 10 ** 6):
        self.prefix = root.rstrip("/") + "/"
        self.fire_at = fire_at
        self.count = 0
        self.fired = 0
        self.max_lines = max_lines

    def _local(self, frame, event, arg):
        if event == "line":
            self.count += 1
            if self.count == self.fire_at:
                self.fired += 1
                raise KeyboardInterrupt("simulated interrupt at executed line %d (%s:%d)" % (self.count, frame.f_code.co_filename[len(self.prefix):], frame.f_lineno))
            if self.count > self.max_lines:
                raise StepBudgetExceeded("traced lines")
        return self._local

    def _global(self, frame, event, arg):
        # module bodies (a lazily imported module runs its top level only the first time in a process) are not counted:
        # the position of the interrupt must not depend on what was imported before
        if event == "call" and frame.f_code.co_name != "<module>" and frame.f_code.co_filename.startswith(self.prefix):
            return self._local
        return None

    def __enter__(self):
        sys.settrace(self._global)
        return self

    def __exit__(self, *exc):
        sys.settrace(None)
        return False


class BinnerOpBudget:
    """Deterministic step counter for code that reads no clock and calls no caller-supplied function: every
    operation of the two bins-managers (the one resource every algorithm works through) is counted, at class
    level, and StepBudgetExceeded (a BaseException) is raised beyond the budget. Behaviour is unchanged otherwise.
    The harness discards a run that hits the budget; a wall-clock watchdog never has to decide anything."""

    METHODS = ("new_bins", "copy_bins", "add_item_to_bin", "sort_by_ascending_sum", "combine_bins",
               "concatenate_bins", "add_empty_bins", "remove_bins")

    def __init__(self):
        self.ops = 0
        self.budget = 10 ** 15
        self.peak = 0
        self._installed = False

    def install(self):
        if self._installed:
            return
        import prtpy
        seam = self

        def wrap(fn):
            def counted(*a, **k):
                seam.ops += 1
                if seam.ops > seam.budget:
                    raise StepBudgetExceeded("bins-manager operations")
                return fn(*a, **k)
            counted.__name__ = getattr(fn, "__name__", "counted")
            counted.__doc__ = getattr(fn, "__doc__", None)
            counted.__wrapped__ = fn
            return counted
        for cls in (prtpy.BinnerKeepingSums, prtpy.BinnerKeepingContents):
            for name in self.METHODS:
                fn = cls.__dict__.get(name)
                if fn is not None and callable(fn) and not hasattr(fn, "__wrapped__"):
                    setattr(cls, name, wrap(fn))
        self._installed = True

    def start(self, budget):
        self.peak = max(self.peak, self.ops)
        self.ops = 0
        self.budget = budget


class LogSeam:
    """Run-time configuration the deployment owns: the logging level of the `prtpy.*` loggers.
    Records are formatted (so that %-formatting and __str__/__repr__ of the logged objects really run)
    into a sink that writes nowhere. level: None (library default: nothing is emitted) | "INFO" | "DEBUG"."""

    class _Sink:
        level = 0

        def __init__(self, seam):
            self.seam = seam

        def handle(self, record):
            try:
                self.seam.chars += len(record.getMessage())
                self.seam.records += 1
            except Exception:
                self.seam.format_errors += 1      # what logging.Handler.handleError would swallow as well
            return True

    def __init__(self, package="prtpy"):
        self.package = package
        self.records = 0
        self.chars = 0
        self.format_errors = 0
        self._sink = None

    def configure(self, level):
        import logging
        lg = logging.getLogger(self.package)
        if self._sink is not None:
            try:
                lg.handlers.remove(self._sink)
            except ValueError:
                pass
            self._sink = None
        if level is None:
            lg.setLevel(logging.NOTSET)
            lg.propagate = True
            return
        self._sink = LogSeam._Sink(self)
        lg.handlers.append(self._sink)
        lg.setLevel(getattr(logging, level))
        lg.propagate = False


FAULT_EXCEPTIONS = {"InjectedFault": InjectedFault, "KeyError": KeyError, "MemoryError": MemoryError,
                    "KeyboardInterrupt": KeyboardInterrupt}


def make_fault(name, msg):
    """The exception a simulated component raises: an ordinary error, a lookup error (the natural failure of a
    dict-backed valueof), a failed allocation, or the user's interrupt (SIGINT) arriving at that instant."""
    return FAULT_EXCEPTIONS.get(name, InjectedFault)(msg)


class FaultyValueOf:
    """valueof over a mapping (or identity) that raises InjectedFault at its k-th invocation.

    Also the deterministic step counter: raises StepBudgetExceeded after max_calls.
    """

    def __init__(self, mapping=None, fail_at=None, max_calls=10 ** 7, exc="InjectedFault"):
        self.mapping = mapping
        self.fail_at = fail_at
        self.exc = exc
        self.calls = 0
        self.max_calls = max_calls
        self.fired = 0

    def __call__(self, item):
        self.calls += 1
        if self.calls > self.max_calls:
            raise StepBudgetExceeded("valueof calls")
        if self.fail_at is not None and self.calls == self.fail_at:
            self.fired += 1
            raise make_fault(self.exc, f"valueof failed at invocation {self.calls}")
        if self.mapping is None:
            return item
        return self.mapping[item]


class SimSolver:
    """The external-solver seam: class-level replacement of mip.Model.optimize.

    mode (a dict, swapped per call by the harness):
      {"mode":"real"}                              delegate to CBC (a finite max_seconds is never forwarded,
                                                   so CBC's own real clock cannot influence a run)
      {"mode":"real_then_status","status":S}       CBC really solves (x holds a plausible solution) but S is reported
      {"mode":"stub_status","status":S}            no solve at all, S is reported (x is None)
      {"mode":"raise","exc":"InterfacingError"|"MemoryError"|"InjectedFault"}
      {"mode":"sim_timeout","sim_duration":D,"late":"FEASIBLE"|"NO_SOLUTION_FOUND"}
                                                   the solve "takes" D simulated seconds: if the max_seconds that
                                                   the caller forwarded is < D the time-out status is reported
      optional "preprocess": 0|1|-1, "cuts": 0     forced on the model before solving (discriminator for CBC's own faults)
      optional "max_nodes": N                      branch-and-bound node limit handed to the real solve (deterministic work bound)
      optional "x_noise": {"seed":s,"eps":e}       the solution values read back through mip.Var.x are off by up to e (< the solver's
                                                   integrality tolerance, CBC: 1e-6) in a direction fixed by (s, variable index): a MIP
                                                   solver returns integer variables only up to that tolerance (0.9999999 for 1). The
                                                   verdict stays whatever the mode says (OPTIMAL for "real").
    """

    def __init__(self):
        self.mode = {"mode": "real"}
        self.calls = 0
        self.fired = {}
        self.last_forwarded_max_seconds = None
        self.last_real_status = None
        self._noise_counted = False
        self._installed = False

    def install(self):
        if self._installed:
            return
        import mip
        self.mip = mip
        self._orig = mip.Model.optimize
        sim = self

        def optimize(model, *args, **kwargs):
            return sim._optimize(model, args, kwargs)
        optimize.__name__ = "optimize"
        mip.Model.optimize = optimize
        # solution read-back seam: mip.Var.x (class-level property)
        orig_x = mip.Var.x.fget
        self._orig_x = orig_x

        def x(var):
            v = orig_x(var)
            nz = sim.mode.get("x_noise") if sim.mode else None
            if nz and v is not None:
                h = _noise_unit(nz["seed"], var.idx)
                if not sim._noise_counted:
                    sim._noise_counted = True
                    sim._fire("solver_x_within_integrality_tolerance")
                return v + nz["eps"] * h
            return v
        mip.Var.x = property(x, doc=mip.Var.x.__doc__)
        self._installed = True

    def use(self, mode):
        self.mode = mode or {"mode": "real"}

    def _fire(self, kind):
        self.fired[kind] = self.fired.get(kind, 0) + 1

    def _optimize(self, model, args, kwargs):
        mip = self.mip
        self.calls += 1
        self._noise_counted = False
        kwargs = dict(kwargs)
        args = list(args)
        max_seconds = kwargs.get("max_seconds", args[0] if args else float("inf"))
        self.last_forwarded_max_seconds = max_seconds
        # never let the real solver see a finite limit: its clock is real
        if args:
            args[0] = float("inf")
        else:
            kwargs["max_seconds"] = float("inf")
        m = self.mode
        mode = m.get("mode", "real")
        if "preprocess" in m:
            model.preprocess = m["preprocess"]
        if "cuts" in m:
            model.cuts = m["cuts"]          # 0 = no cut generation (plain branch and bound)
        st = mip.OptimizationStatus
        if "max_nodes" in m:
            # a deterministic bound on the real solver's work (its clock is real, its node count is not)
            kwargs["max_nodes"] = m["max_nodes"]
        self.last_real_status = None
        if mode == "real":
            self.last_real_status = self._orig(model, *args, **kwargs)
            return self.last_real_status
        if mode == "real_then_status":
            self._orig(model, *args, **kwargs)
            self._fire("solver_status_" + m["status"])
            return st[m["status"]]
        if mode == "stub_status":
            self._fire("solver_status_" + m["status"])
            return st[m["status"]]
        if mode == "raise":
            self._fire("solver_raise_" + m["exc"])
            if m["exc"] == "InterfacingError":
                raise mip.InterfacingError("simulated solver interface failure")
            if m["exc"] == "MemoryError":
                raise MemoryError("simulated allocation failure in solver")
            if m["exc"] == "KeyboardInterrupt":
                raise KeyboardInterrupt("simulated user interrupt during the solve")
            raise InjectedFault("simulated solver failure")
        if mode == "sim_timeout":
            try:
                timed_out = float(max_seconds) < float(m["sim_duration"])
            except (TypeError, ValueError):
                timed_out = False
            if not timed_out:
                return self._orig(model, *args, **kwargs)
            self._fire("solver_sim_timeout_" + m.get("late", "FEASIBLE"))
            if m.get("late", "FEASIBLE") == "FEASIBLE":
                self._orig(model, *args, **kwargs)
                return st.FEASIBLE
            return st.NO_SOLUTION_FOUND
        raise ValueError("unknown solver mode " + repr(mode))


def _noise_unit(seed, idx):
    """Deterministic value in {-1, -0.5, +0.5, +1} for (seed, variable index); most often negative,
    because it is the value just BELOW an integer that a truncating reader gets wrong."""
    import hashlib
    b = hashlib.sha256(("%d:%d" % (seed, idx)).encode()).digest()[0]
    return (-1.0, -1.0, -0.5, -1.0, 0.5, -1.0, 1.0, -0.5)[b % 8]


def warm_up_solver():
    """First use of the CBC shared library costs ~0.7 s per process: do it once before forking.
    Does not go through prtpy."""
    import mip
    m = mip.Model("warmup")
    m.verbose = 0
    x = m.add_var(var_type=mip.INTEGER)
    y = m.add_var(var_type=mip.INTEGER)
    m.objective = mip.minimize(x + y)
    m += x + 2 * y >= 3
    m += x >= 0
    m += y >= 0
    m.optimize()
    v = m.objective_value
    # python-mip binds CBC through cffi in ABI mode: every C function is looked up lazily, under a
    # NON-reentrant lock, the first time it is used. If the garbage collector runs a Model finalizer
    # (which needs Cbc_deleteModel) while that lock is held for another first-time lookup, the
    # interpreter dead-locks on itself. Resolve every declared function now, and leave no garbage
    # behind, so that no child forked from this process can ever hit that window.
    try:
        import gc
        import mip.cbc as _cbc
        for decl in list(_cbc.ffi._parser._declarations):
            if decl.startswith("function "):
                try:
                    getattr(_cbc.cbclib, decl[len("function "):])
                except Exception:
                    pass
        del m, x, y
        gc.collect()
    except Exception:
        pass
    return v
