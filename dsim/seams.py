"""
The seams the simulator owns: clock, caller-supplied valueof, external solver.

No source change in the tree under test is needed:
 * clock  - prtpy modules read the clock through their module attribute `time`
            (complete_greedy.py, cbldm.py). install_clock() replaces, in every loaded
            prtpy.* module, each global that *is* the `time` module (or a builtin taken from
            it, so `from time import perf_counter` is caught as well) by the simulated one,
            and additionally routes calls to the real time.* functions that come from a
            prtpy frame (function-level imports) to the simulated clock.
 * valueof - FaultyValueOf is simply passed as the callable.
 * solver - class-level patch of mip.Model.optimize (see SimSolver).
"""
import random
import sys
import time as _real_time
import types

from .core import InjectedFault, StepBudgetExceeded

_CLOCK_FUNCS = ("perf_counter", "monotonic", "time", "process_time")
_CLOCK_FUNCS_NS = ("perf_counter_ns", "monotonic_ns", "time_ns", "process_time_ns")
_REAL = {n: getattr(_real_time, n) for n in _CLOCK_FUNCS + _CLOCK_FUNCS_NS + ("sleep",)}


class SimClock:
    """A deterministic monotone clock standing in for the `time` module.

    schedule: {"kind":"uniform","t0":x,"tick":d}
              {"kind":"incs","t0":x,"incs":[...],"tick":d}        explicit increments, then tick
              {"kind":"jitter","t0":x,"seed":s,"choices":[...]}   increments drawn from a PRNG
              + optional "jump":{"at":i,"by":d}   one forward jump before reading i
    Reading i (0-based, counted over the lifetime of the clock) returns
    t0 + sum of the first i increments (+ jump when i >= at).
    """

    def __init__(self, schedule, max_reads=10 ** 7):
        self.schedule = schedule
        self.max_reads = max_reads
        self.reset()

    def reset(self):
        s = self.schedule
        self.reads = 0
        self.now = float(s.get("t0", 0.0))
        self.first = self.now
        self._rng = random.Random(s["seed"]) if s["kind"] == "jitter" else None
        self.log = None      # optional list of readings (filled when not None)

    def _advance(self):
        s = self.schedule
        i = self.reads      # increment leading to reading i (i >= 1)
        kind = s["kind"]
        if kind == "uniform":
            inc = s["tick"]
        elif kind == "incs":
            incs = s["incs"]
            inc = incs[i - 1] if i - 1 < len(incs) else s.get("tick", 1.0)
        elif kind == "jitter":
            inc = self._rng.choice(s["choices"])
        else:
            raise ValueError("unknown clock schedule " + repr(kind))
        j = s.get("jump")
        if j and j["at"] == i:
            inc += j["by"]
        self.now += inc

    def read(self):
        if self.reads >= self.max_reads:
            raise StepBudgetExceeded("clock readings")
        if self.reads > 0:
            self._advance()
        self.reads += 1
        if self.log is not None:
            self.log.append(self.now)
        return self.now

    # the `time` module interface
    def perf_counter(self): return self.read()
    def monotonic(self): return self.read()
    def time(self): return self.read()
    def process_time(self): return self.read()
    def perf_counter_ns(self): return int(self.read() * 1e9)
    def monotonic_ns(self): return int(self.read() * 1e9)
    def time_ns(self): return int(self.read() * 1e9)
    def process_time_ns(self): return int(self.read() * 1e9)
    def sleep(self, s): self.now += max(0.0, float(s))

    def __getattr__(self, name):          # anything else (strftime, ...) -> real module
        return getattr(_real_time, name)

    @property
    def elapsed(self):
        return self.now - self.first


class ClockSeam:
    """Installs one SimClock into the tree under test (in this process) and can swap it."""

    def __init__(self, package="prtpy"):
        self.package = package
        self.clock = None
        self.patched = []          # (module name, global name) pairs that were redirected
        self._installed = False

    def _in_pkg(self, modname):
        return modname == self.package or modname.startswith(self.package + ".")

    def install(self):
        if self._installed:
            return
        seam = self

        class _Proxy:
            """Stands for the `time` module inside prtpy modules; forwards to the current SimClock."""
            def __getattr__(self, name):
                return getattr(seam.clock, name)
        proxy = _Proxy()
        self.proxy = proxy

        def bound(name):
            def f(*a, **k):
                return getattr(seam.clock, name)(*a, **k)
            f.__name__ = name
            return f

        real_builtin = {id(fn): n for n, fn in _REAL.items()}
        for modname, mod in list(sys.modules.items()):
            if mod is None or not self._in_pkg(modname):
                continue
            g = getattr(mod, "__dict__", None)
            if not g:
                continue
            for gname, val in list(g.items()):
                if val is _real_time:
                    g[gname] = proxy
                    self.patched.append((modname, gname))
                elif isinstance(val, types.BuiltinFunctionType) and id(val) in real_builtin:
                    g[gname] = bound(real_builtin[id(val)])
                    self.patched.append((modname, gname))

        # function-level `import time` / `time.perf_counter()` from a prtpy frame
        def dispatcher(name):
            real = _REAL[name]

            def f(*a, **k):
                try:
                    caller = sys._getframe(1).f_globals.get("__name__", "")
                except Exception:
                    caller = ""
                if seam.clock is not None and seam._in_pkg(caller):
                    return getattr(seam.clock, name)(*a, **k)
                return real(*a, **k)
            f.__name__ = name
            return f
        for n in _CLOCK_FUNCS + _CLOCK_FUNCS_NS + ("sleep",):
            setattr(_real_time, n, dispatcher(n))
        self._installed = True

    def use(self, clock: SimClock):
        self.clock = clock
        return clock


class FaultyValueOf:
    """valueof over a mapping (or identity) that raises InjectedFault at its k-th invocation.

    Also the deterministic step counter: raises StepBudgetExceeded after max_calls.
    """

    def __init__(self, mapping=None, fail_at=None, max_calls=10 ** 7):
        self.mapping = mapping
        self.fail_at = fail_at
        self.calls = 0
        self.max_calls = max_calls
        self.fired = 0

    def __call__(self, item):
        self.calls += 1
        if self.calls > self.max_calls:
            raise StepBudgetExceeded("valueof calls")
        if self.fail_at is not None and self.calls == self.fail_at:
            self.fired += 1
            raise InjectedFault(f"valueof failed at invocation {self.calls}")
        if self.mapping is None:
            return item
        return self.mapping[item]
