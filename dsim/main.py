"""CLI of the deterministic simulator:  ./check <C11|C15|C16|C17> [--tier quick|thorough] [--replay FILE]"""
import argparse
import faulthandler
import os
import sys

HERE = os.path.dirname(os.path.abspath(__file__))
VERIF_DIR = os.path.dirname(HERE)
if VERIF_DIR not in sys.path:
    sys.path.insert(0, VERIF_DIR)

from dsim import runner   # noqa: E402


def main(argv=None):
    ap = argparse.ArgumentParser()
    ap.add_argument("prop", choices=runner.PROPS)
    ap.add_argument("--tier", default=os.environ.get("VERIF_TIER") or "quick", choices=("quick", "thorough"))
    ap.add_argument("--seed", type=int, default=None)
    ap.add_argument("--jobs", type=int, default=None)
    ap.add_argument("--runs", type=int, default=None)
    ap.add_argument("--budget", type=float, default=None, help="wall cap in seconds (stops submitting new runs)")
    ap.add_argument("--replay", default=None)
    ap.add_argument("--digests", default=None, help="comma separated run indices: print their digests only")
    a = ap.parse_args(argv)
    faulthandler.enable()
    seed = a.seed if a.seed is not None else int(os.environ.get("VERIF_SEED") or 0)
    jobs = a.jobs or int(os.environ.get("VERIF_JOBS") or 0) or min(16, os.cpu_count() or 1)
    budget = a.budget or (float(os.environ["VERIF_BUDGET_S"]) if os.environ.get("VERIF_BUDGET_S") else None)
    try:
        if a.replay:
            return runner.do_replay(a.prop, a.replay)
        dig = [int(x) for x in a.digests.split(",")] if a.digests else None
        return runner.do_batch(a.prop, a.tier, seed, jobs, runs_override=a.runs, budget_override=budget, digests_only=dig)
    except SystemExit:
        raise
    except BaseException:
        import traceback
        print("HARNESS-ERROR: property=%s uncaught exception in the harness\n%s" % (a.prop, traceback.format_exc()))
        return 2


if __name__ == "__main__":
    sys.exit(main())
