#!/bin/sh
# Offline set-up: nothing is built or fetched. Verifies that the interpreter the checks use can import
# numpy, python-mip (+ its CBC binary) and the tree under test from /repo's working tree.
set -e
DIR="$(cd "$(dirname "$0")" && pwd)"
cd "$DIR"
mkdir -p evidence replays
PYTHONDONTWRITEBYTECODE=1 /venv/bin/python - <<'PY'
import os, sys
root = os.path.abspath(os.environ.get("VERIF_REPO", "/repo"))
sys.path.insert(0, root)
import numpy, mip, prtpy
assert os.path.abspath(prtpy.__file__).startswith(root + os.sep), prtpy.__file__
sys.path.insert(0, os.getcwd())
from dsim import refmodels
refmodels.self_check()
print("setup ok: numpy", numpy.__version__, "mip", mip.__version__, "prtpy from", os.path.dirname(prtpy.__file__))
PY
